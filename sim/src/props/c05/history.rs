//! Honest history production: run the runtime world, collect every retained artifact, check the
//! chain invariants and build the reference "verified state" per worldline and target tick.

use std::collections::BTreeMap;

use serde::{Deserialize, Serialize};
use warp_core::{
    export_suffix, import_suffix, BoundaryTransitionRecord, CausalSuffixBundle, ExportSuffixRequest, ImportSuffixRequest, ImportSuffixResult,
    ProvenanceEntry, ProvenanceRef, ProvenanceService, ProvenanceStore, ReplayCheckpoint, WitnessedSuffixAdmissionContext,
    WitnessedSuffixAdmissionOutcome, WitnessedSuffixAdmissionRequest, WitnessedSuffixExportContext, WitnessedSuffixLocalAdmissionPosture,
    WitnessedSuffixShell, WorldlineId, WorldlineState, WorldlineTick,
};

use super::tamper::{commit_id_of, patch_digest_of, H};
use crate::kernel::{Outcome, RunCtx};
use crate::model::refstate::{abs, RefState};
use crate::world::ids;
use crate::world::runtime::{wl_id, Intent, PassResult, World, WorldSpec};

#[derive(Clone, Debug, Serialize, Deserialize)]
pub enum Op {
    Deliver(Intent),
    Pass,
}

/// One link of the verified chain as a verifier reports it (from `WorldlineState::tick_history`).
#[derive(Clone, Debug, PartialEq, Eq)]
pub struct Link {
    pub commit: H,
    pub state_root: H,
    pub patch_digest: H,
    pub parents: Vec<H>,
    pub tx: u64,
    pub policy: u32,
}

/// Verified state at one target tick.
#[derive(Clone, Debug, PartialEq, Eq)]
pub struct V {
    pub tick: u64,
    pub state_root: H,
    /// abstract state restricted to what the state root commits to (reachable from the root)
    pub reach: RefState,
    pub chain: Vec<Link>,
    pub last: Option<Link>,
}

pub fn warps() -> Vec<warp_core::WarpId> {
    (0..ids::N_WARPS).map(ids::warp).collect()
}

fn link_of(s: &warp_core::Snapshot) -> Link {
    Link { commit: s.hash, state_root: s.state_root, patch_digest: s.patch_digest, parents: s.parents.clone(), tx: s.tx.value(), policy: s.policy_id }
}

pub fn verified(state: &WorldlineState) -> V {
    let full = abs(state.warp_state(), &warps());
    let root = state.root();
    V {
        tick: state.current_tick().as_u64(),
        state_root: state.state_root(),
        reach: full.reachable_projection(&root.warp_id.0, &root.local_id.0),
        chain: state.tick_history().iter().map(|(s, _, _)| link_of(s)).collect(),
        last: state.last_snapshot().map(link_of),
    }
}

/// Human-readable first difference between two verified states.
pub fn diff_v(got: &V, want: &V) -> Option<String> {
    if got.tick != want.tick {
        return Some(format!("tick {} instead of {}", got.tick, want.tick));
    }
    if got.state_root != want.state_root {
        return Some(format!("state root {} instead of {}", hex::encode(&got.state_root[..6]), hex::encode(&want.state_root[..6])));
    }
    if got.reach != want.reach {
        return Some("reachable abstract state differs (same state root)".to_owned());
    }
    if got.chain.len() != want.chain.len() {
        return Some(format!("chain of {} links instead of {}", got.chain.len(), want.chain.len()));
    }
    for (i, (g, w)) in got.chain.iter().zip(&want.chain).enumerate() {
        if g != w {
            let what = if g.commit != w.commit {
                "commit id"
            } else if g.state_root != w.state_root {
                "state root"
            } else if g.patch_digest != w.patch_digest {
                "patch digest"
            } else if g.parents != w.parents {
                "parent commit ids"
            } else if g.tx != w.tx {
                "tick number (tx)"
            } else {
                "policy id"
            };
            return Some(format!("chain link of tick {i}: {what} differs (commit {} instead of {})", hex::encode(&g.commit[..6]), hex::encode(&w.commit[..6])));
        }
    }
    if got.last != want.last {
        return Some("last snapshot differs".to_owned());
    }
    None
}

pub struct WlHist {
    pub idx: u8,
    pub id: WorldlineId,
    pub base: WorldlineState,
    pub entries: Vec<ProvenanceEntry>,
    /// honest replayed states for targets 0..=len
    pub states: Vec<WorldlineState>,
    pub vref: Vec<V>,
    pub checkpoints: Vec<ReplayCheckpoint>,
}

impl WlHist {
    pub fn len(&self) -> u64 {
        self.entries.len() as u64
    }
}

pub struct SuffixRef {
    pub wl: u8,
    pub bundle: CausalSuffixBundle,
    pub request: ImportSuffixRequest,
    pub result: ImportSuffixResult,
}

pub struct Sibling {
    /// per worldline index: entries and replayed states of the sibling history
    pub wls: BTreeMap<u8, (Vec<ProvenanceEntry>, Vec<WorldlineState>)>,
}

pub struct Hist {
    pub wls: Vec<WlHist>,
    /// the real store without checkpoints / with the honest checkpoints
    pub plain: ProvenanceService,
    pub with_cp: ProvenanceService,
    pub fork: Option<(u8, u64)>,
    pub btr: Option<(u8, BoundaryTransitionRecord)>,
    pub suffix: Option<SuffixRef>,
    pub sibling: Option<Sibling>,
    pub ticks: u64,
}

pub struct Plan<'a> {
    pub checkpoints: &'a [(u8, u32)],
    pub fork: (u8, u32),
    pub btr: (u8, u32, u32),
    pub suffix: (u8, u32, bool),
}

/// Export side of the suffix path: reads source coordinates from the real provenance service.
pub struct ExportCtx<'a> {
    pub prov: &'a ProvenanceService,
}

impl WitnessedSuffixExportContext for ExportCtx<'_> {
    fn source_entries(&self, request: &ExportSuffixRequest) -> Option<Vec<ProvenanceRef>> {
        let w = request.source_worldline_id;
        let base = self.prov.entry(w, request.base_frontier.worldline_tick).ok()?;
        if base.as_ref() != request.base_frontier {
            return None;
        }
        let len = self.prov.len(w).ok()?;
        let end = request.target_frontier.map_or(len, |t| t.worldline_tick.as_u64() + 1).min(len);
        let mut out = Vec::new();
        for t in request.base_frontier.worldline_tick.as_u64() + 1..end {
            out.push(self.prov.entry(w, WorldlineTick::from_raw(t)).ok()?.as_ref());
        }
        Some(out)
    }
    fn boundary_witness(&self, request: &ExportSuffixRequest) -> Option<ProvenanceRef> {
        Some(request.base_frontier)
    }
}

/// Import side: an honest receiver that recomputes the shell digest itself, resolves the target
/// basis against its own store and otherwise reports the shape-only posture "admissible".
pub struct ImportCtx<'a> {
    pub prov: &'a ProvenanceService,
}

impl WitnessedSuffixAdmissionContext for ImportCtx<'_> {
    fn source_shell_digest(&self, shell: &WitnessedSuffixShell) -> Option<H> {
        Some(warp_core::derive_witnessed_suffix_shell_digest(shell))
    }
    fn resolve_target_basis(&self, target_basis: ProvenanceRef) -> Option<ProvenanceRef> {
        let e = self.prov.entry(target_basis.worldline_id, target_basis.worldline_tick).ok()?;
        (e.as_ref() == target_basis).then_some(target_basis)
    }
    fn local_admission_posture(&self, request: &WitnessedSuffixAdmissionRequest) -> WitnessedSuffixLocalAdmissionPosture {
        match WitnessedSuffixLocalAdmissionPosture::admissible(request.source_suffix.source_entries.clone()) {
            Ok(p) => p,
            Err(_) => WitnessedSuffixLocalAdmissionPosture::Staged { staged_refs: Vec::new() },
        }
    }
}

pub fn run_world(spec: &WorldSpec, ops: &[Op], subst: Option<(usize, &Intent)>) -> Result<(World, Vec<Vec<(u8, u64, Option<ProvenanceRef>)>>, Vec<String>), String> {
    let mut w = World::new(spec)?;
    let mut tips = Vec::new();
    let mut failed = Vec::new();
    for (i, op) in ops.iter().enumerate() {
        match op {
            Op::Deliver(intent) => {
                let intent = match subst {
                    Some((k, alt)) if k == i => alt,
                    _ => intent,
                };
                let _ = w.deliver(intent);
            }
            Op::Pass => {
                match w.pass() {
                    PassResult::Ok(_) => {}
                    PassResult::Err(e) => failed.push(super::verify::err_name(&e)),
                    PassResult::Panic(p) => failed.push(format!("panic.{}", p.split_whitespace().next().unwrap_or(""))),
                }
                let mut t = Vec::new();
                for wl in &spec.worldlines {
                    let id = wl_id(wl.id);
                    t.push((wl.id, w.provenance.len(id).unwrap_or(0), w.provenance.tip_ref(id).ok().flatten()));
                }
                tips.push(t);
            }
        }
    }
    Ok((w, tips, failed))
}

fn base_state(spec: &WorldSpec, idx: u8) -> Result<WorldlineState, String> {
    let wl = spec.worldlines.iter().find(|w| w.id == idx).ok_or("no such worldline")?;
    let st = wl.state.build()?;
    WorldlineState::new(st, wl.state.root_key()).map_err(|e| format!("{e:?}"))
}

fn collect_entries(prov: &ProvenanceService, id: WorldlineId) -> Result<Vec<ProvenanceEntry>, String> {
    let n = prov.len(id).map_err(|e| format!("{e:?}"))?;
    (0..n).map(|t| prov.entry(id, WorldlineTick::from_raw(t)).map_err(|e| format!("{e:?}"))).collect()
}

macro_rules! bail {
    ($class:expr, $($fmt:tt)*) => {
        return Err(Outcome::violation($class, format!($($fmt)*)))
    };
}

/// Run the honest world (and the sibling), check chain invariants, build reference material.
pub fn build(spec: &WorldSpec, ops: &[Op], sibling: Option<(usize, &Intent)>, plan: &Plan<'_>, ctx: &mut RunCtx) -> Result<Hist, Outcome> {
    let (world, tips, failed) = match run_world(spec, ops, None) {
        Ok(x) => x,
        Err(e) => bail!("state_construction_failed", "{e}"),
    };
    ctx.count("time.passes", tips.len() as u64);
    for f in &failed {
        ctx.hit(&format!("reach.honest_pass_failed.{f}"));
    }
    let plain = world.provenance.clone();
    let mut wls = Vec::new();
    let mut ticks = 0u64;
    for wl in &spec.worldlines {
        let id = wl_id(wl.id);
        let base = match base_state(spec, wl.id) {
            Ok(b) => b,
            Err(e) => bail!("state_construction_failed", "{e}"),
        };
        let entries = match collect_entries(&plain, id) {
            Ok(e) => e,
            Err(e) => bail!("chain_invariant:gap", "worldline {}: entry lookup inside len failed: {e}", wl.id),
        };
        let live = world.live.get(&wl.id).cloned().unwrap_or_default();
        // --- chain invariants on the generated history ---
        if plain.initial_boundary_hash(id).ok() != Some(base.state_root()) {
            bail!("chain_invariant:initial_boundary", "worldline {}: registered initial boundary is not the state root of the initial state", wl.id);
        }
        if entries.len() != live.len() {
            bail!("chain_invariant:gap", "worldline {}: {} entries but {} committed ticks", wl.id, entries.len(), live.len());
        }
        for (t, e) in entries.iter().enumerate() {
            if e.worldline_tick.as_u64() != t as u64 || e.worldline_id != id {
                bail!("chain_invariant:gap", "worldline {} position {t}: entry carries tick {} worldline {:?}", wl.id, e.worldline_tick.as_u64(), e.worldline_id);
            }
            let want_parents: Vec<ProvenanceRef> = if t == 0 { Vec::new() } else { vec![entries[t - 1].as_ref()] };
            if e.parents != want_parents {
                bail!("chain_invariant:parents", "worldline {} tick {t}: parents {:?} but tip before the commit was {:?}", wl.id, e.parents, want_parents);
            }
            let Some(p) = e.patch.as_ref() else { bail!("chain_invariant:commit_id", "worldline {} tick {t}: local commit without patch", wl.id) };
            if commit_id_of(e) != Some(e.expected.commit_hash) {
                bail!("chain_invariant:commit_id", "worldline {} tick {t}: commit id is not compute_commit_hash_v2(state_root, parents, patch_digest, policy)", wl.id);
            }
            if patch_digest_of(p) != e.expected.patch_digest || p.patch_digest != e.expected.patch_digest {
                bail!("chain_invariant:patch_digest", "worldline {} tick {t}: patch digest is not the digest of the retained patch", wl.id);
            }
            if live[t].commit_hash != e.expected.commit_hash || live[t].state_root != e.expected.state_root {
                bail!("chain_invariant:live_mismatch", "worldline {} tick {t}: step record and provenance entry disagree", wl.id);
            }
        }
        // append-only: the tip recorded after every pass is still at its position
        for pass in &tips {
            for (w, n, tip) in pass {
                if *w == wl.id {
                    let here = if *n == 0 { None } else { entries.get(*n as usize - 1).map(ProvenanceEntry::as_ref) };
                    if here != *tip {
                        bail!("chain_invariant:append_only", "worldline {}: tip recorded at length {n} is no longer the entry at that position", wl.id);
                    }
                }
            }
        }
        // --- untampered replay through the service: Ok and equal to live ---
        let mut states = Vec::new();
        let mut vref = Vec::new();
        for t in 0..=entries.len() as u64 {
            let st = match crate::kernel::catch(|| plain.replay_worldline_state_at(id, &base, WorldlineTick::from_raw(t))) {
                Ok(Ok(s)) => s,
                Ok(Err(e)) => bail!("untampered_history_rejected", "worldline {} target {t}: replay_worldline_state_at: {e:?}", wl.id),
                Err(p) => bail!("verifier_panicked:replay", "untampered worldline {} target {t}: {p}", wl.id),
            };
            ctx.count("time.verifications", 1);
            let v = verified(&st);
            if v.tick != t || v.chain.len() as u64 != t {
                bail!("untampered_replay_differs_from_live", "worldline {} target {t}: replay reports tick {}", wl.id, v.tick);
            }
            if t > 0 {
                let l = &live[t as usize - 1];
                let link = &v.chain[t as usize - 1];
                if v.state_root != l.state_root || link.commit != l.commit_hash || link.state_root != l.state_root {
                    bail!("untampered_replay_differs_from_live", "worldline {} target {t}: replayed root/commit differ from the live step record", wl.id);
                }
                if link.parents != entries[t as usize - 1].parents.iter().map(|p| p.commit_hash).collect::<Vec<_>>() || link.patch_digest != entries[t as usize - 1].expected.patch_digest {
                    bail!("untampered_replay_differs_from_live", "worldline {} target {t}: replayed chain link differs from the entry", wl.id);
                }
                if let Some(a) = &l.abs {
                    if *a != abs(st.warp_state(), &warps()) {
                        bail!("untampered_replay_differs_from_live", "worldline {} target {t}: replayed abstract state differs from the live state", wl.id);
                    }
                }
            } else if v.state_root != base.state_root() {
                bail!("untampered_replay_differs_from_live", "worldline {} target 0: not the initial state", wl.id);
            }
            states.push(st);
            vref.push(v);
        }
        ticks += entries.len() as u64;
        ctx.count("reach.ticks_changing_state_root", (1..vref.len()).filter(|t| vref[*t].state_root != vref[*t - 1].state_root).count() as u64);
        wls.push(WlHist { idx: wl.id, id, base, entries, states, vref, checkpoints: Vec::new() });
    }
    ctx.count("time.ticks", ticks);

    // --- honest checkpoints ---
    let mut with_cp = plain.clone();
    for (wsel, tsel) in plan.checkpoints {
        let k = (*wsel as usize) % wls.len();
        let wl = &mut wls[k];
        let t = u64::from(*tsel) % (wl.len() + 1);
        if wl.checkpoints.iter().any(|c| c.checkpoint.worldline_tick.as_u64() == t) {
            continue;
        }
        let cp = ReplayCheckpoint::from_state(&wl.states[t as usize]);
        match crate::kernel::catch(|| with_cp.add_checkpoint(wl.id, cp.clone())) {
            Ok(Ok(())) => {}
            Ok(Err(e)) => bail!("untampered_history_rejected", "worldline {} checkpoint of the replayed state at tick {t} refused: {e:?}", wl.idx),
            Err(p) => bail!("verifier_panicked:add_checkpoint", "untampered: {p}"),
        }
        wl.checkpoints.push(cp);
        wl.checkpoints.sort_by_key(|c| c.checkpoint.worldline_tick);
        ctx.hit("reach.honest_checkpoint");
    }
    for wl in &wls {
        if wl.checkpoints.is_empty() {
            continue;
        }
        for t in 0..=wl.len() {
            match crate::kernel::catch(|| with_cp.replay_worldline_state_at(wl.id, &wl.base, WorldlineTick::from_raw(t))) {
                Ok(Ok(s)) => {
                    ctx.count("time.verifications", 1);
                    if let Some(d) = diff_v(&verified(&s), &wl.vref[t as usize]) {
                        bail!("untampered_history_rejected", "worldline {} target {t}: replay from honest checkpoints differs from replay from U0: {d}", wl.idx);
                    }
                }
                Ok(Err(e)) => bail!("untampered_history_rejected", "worldline {} target {t} with honest checkpoints: {e:?}", wl.idx),
                Err(p) => bail!("verifier_panicked:replay", "untampered with checkpoints: {p}"),
            }
        }
    }

    // --- fork ---
    let mut fork = None;
    {
        let cands: Vec<&WlHist> = wls.iter().filter(|w| w.len() >= 1).collect();
        if !cands.is_empty() {
            let wl = cands[(plan.fork.0 as usize) % cands.len()];
            let ft = u64::from(plan.fork.1) % wl.len();
            let mut svc = with_cp.clone();
            let new_id = wl_id(40 + wl.idx);
            match svc.fork(wl.id, WorldlineTick::from_raw(ft), new_id) {
                Ok(()) => {}
                Err(e) => bail!("untampered_history_rejected", "fork of worldline {} at {ft}: {e:?}", wl.idx),
            }
            for t in 0..=ft + 1 {
                match crate::kernel::catch(|| svc.replay_worldline_state_at(new_id, &wl.base, WorldlineTick::from_raw(t))) {
                    Ok(Ok(s)) => {
                        ctx.count("time.verifications", 1);
                        if let Some(d) = diff_v(&verified(&s), &wl.vref[t as usize]) {
                            bail!("untampered_history_rejected", "fork of worldline {} at {ft}, target {t}: {d}", wl.idx);
                        }
                    }
                    Ok(Err(e)) => bail!("untampered_history_rejected", "fork of worldline {} at {ft}, target {t}: {e:?}", wl.idx),
                    Err(p) => bail!("verifier_panicked:replay", "untampered fork: {p}"),
                }
            }
            fork = Some((wl.idx, ft));
            ctx.hit("reach.honest_fork");
        }
    }

    // --- BTR ---
    let mut btr = None;
    {
        let cands: Vec<&WlHist> = wls.iter().filter(|w| w.len() >= 1).collect();
        if !cands.is_empty() {
            let wl = cands[(plan.btr.0 as usize) % cands.len()];
            let start = u64::from(plan.btr.1) % wl.len();
            let n = 1 + u64::from(plan.btr.2) % (wl.len() - start);
            match plain.build_btr(wl.id, WorldlineTick::from_raw(start), WorldlineTick::from_raw(start + n), 7, vec![0xA5, 0x5A, 0x01]) {
                Ok(r) => {
                    if let Err(e) = r.validate() {
                        bail!("untampered_history_rejected", "built BTR fails self validation: {e:?}");
                    }
                    if let Err(e) = with_cp.validate_btr(&r) {
                        bail!("untampered_history_rejected", "built BTR fails validate_btr: {e:?}");
                    }
                    btr = Some((wl.idx, r));
                    ctx.hit("reach.honest_btr");
                }
                Err(e) => bail!("untampered_history_rejected", "build_btr worldline {} [{start},{}): {e:?}", wl.idx, start + n),
            }
        }
    }

    // --- suffix bundle ---
    let mut suffix = None;
    {
        let cands: Vec<&WlHist> = wls.iter().filter(|w| w.len() >= 2).collect();
        if !cands.is_empty() {
            let wl = cands[(plan.suffix.0 as usize) % cands.len()];
            let base_tick = u64::from(plan.suffix.1) % (wl.len() - 1);
            let base_frontier = wl.entries[base_tick as usize].as_ref();
            let tip = wl.entries[wl.entries.len() - 1].as_ref();
            let req = ExportSuffixRequest { source_worldline_id: wl.id, base_frontier, target_frontier: if plan.suffix.2 { Some(tip) } else { None }, basis_report: None };
            match export_suffix(&req, &ExportCtx { prov: &plain }) {
                Ok(bundle) => {
                    // the receiver judges against a basis it holds: the base frontier itself
                    let request = ImportSuffixRequest { bundle: bundle.clone(), target_worldline_id: wl.id, target_basis: base_frontier, basis_report: None };
                    let result = import_suffix(&request, &ImportCtx { prov: &plain });
                    if result.bundle_digest != bundle.bundle_digest || !matches!(result.admission.outcome, WitnessedSuffixAdmissionOutcome::Admitted { .. }) {
                        bail!("untampered_history_rejected", "exported suffix bundle not admitted on import: {:?}", result.admission.outcome);
                    }
                    if bundle.source_suffix.source_entries != wl.entries[base_tick as usize + 1..].iter().map(ProvenanceEntry::as_ref).collect::<Vec<_>>() || bundle.target_frontier != tip {
                        bail!("untampered_history_rejected", "exported suffix does not cover the entries after the base frontier");
                    }
                    suffix = Some(SuffixRef { wl: wl.idx, bundle, request, result });
                    ctx.hit("reach.honest_suffix_bundle");
                }
                Err(o) => bail!("untampered_history_rejected", "export_suffix obstructed: {o:?}"),
            }
        }
    }

    // --- sibling history (same world, one intent changed) ---
    let mut sib = None;
    if let Some((k, alt)) = sibling {
        if let Ok((w2, _, _)) = run_world(spec, ops, Some((k, alt))) {
            let mut m = BTreeMap::new();
            let mut diverged = false;
            for wl in &wls {
                let Ok(entries) = collect_entries(&w2.provenance, wl.id) else { continue };
                let mut states = Vec::new();
                for t in 0..=entries.len() as u64 {
                    match w2.provenance.replay_worldline_state_at(wl.id, &wl.base, WorldlineTick::from_raw(t)) {
                        Ok(s) => states.push(s),
                        Err(_) => break,
                    }
                }
                if entries.iter().zip(&wl.entries).any(|(a, b)| a.expected.commit_hash != b.expected.commit_hash) {
                    diverged = true;
                }
                m.insert(wl.idx, (entries, states));
            }
            if diverged {
                ctx.hit("reach.sibling_history_diverged");
                sib = Some(Sibling { wls: m });
            }
        }
    }

    Ok(Hist { wls, plain, with_cp, fork, btr, suffix, sibling: sib, ticks })
}
