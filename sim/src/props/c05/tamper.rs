//! Tamper plans as data, and their application to retained material (entries, BTRs, bundles).
//!
//! A tamper is (artifact, position selector, field, new-value selector, forgery level). Selectors
//! are resolved modulo the actual sizes at execution time, so a plan stays well-formed when the
//! history shrinks.

use serde::{Deserialize, Serialize};
use warp_core::{
    compute_commit_hash_v2, AtomPayload, AtomWrite, AttachmentKey, AttachmentOwner, AttachmentPlane, AttachmentValue, GlobalTick, NodeKey,
    ProvenanceEntry, ProvenanceEventKind, ProvenanceRef, SlotId, TickCommitStatus, TickReceipt, TickReceiptDisposition, TickReceiptEntry,
    TickReceiptRejection, TxId, TypeId, WarpOp, WarpTickPatchV1, WorldlineId, WorldlineTick, WorldlineTickPatchV1,
};

use crate::world::ids;

pub type H = [u8; 32];

/// Which digests the forger recomputes after altering the field.
#[derive(Clone, Copy, Debug, Serialize, Deserialize, PartialEq, Eq)]
pub enum Level {
    /// the one field only
    L1,
    /// field + patch digest (in the patch and in the expected triplet); the commit id is left alone
    L2,
    /// field + patch digest + (state root when the forger can compute it) + the entry's own commit id,
    /// applied to a NON-tip entry only (at the tip this is a different valid history; downgraded to L2)
    L3,
}

impl Level {
    pub fn name(self) -> &'static str {
        match self {
            Level::L1 => "L1",
            Level::L2 => "L2",
            Level::L3 => "L3",
        }
    }
}

/// One field (or structural element) of a `ProvenanceEntry`.
#[derive(Clone, Copy, Debug, Serialize, Deserialize, PartialEq, Eq)]
pub enum EntryField {
    WorldlineId,
    WorldlineTick,
    GlobalTick,
    HeadNone,
    HeadOtherHead,
    HeadOtherWorldline,
    ParentWorldline,
    ParentTick,
    ParentCommit,
    ParentsDrop,
    ParentsExtra,
    ParentsGrandparent,
    EventKind,
    StateRoot,
    PatchDigestExpected,
    CommitHash,
    PatchNone,
    PatchWarp,
    OpRemove,
    OpDuplicate,
    OpSwap,
    OpAlter,
    OpInsert,
    InSlotRemove,
    InSlotDup,
    InSlotReverse,
    InSlotAlter,
    InSlotAdd,
    OutSlotRemove,
    OutSlotDup,
    OutSlotReverse,
    OutSlotAlter,
    OutSlotAdd,
    HeaderPlan,
    HeaderDecision,
    HeaderRewrites,
    HeaderGlobalTick,
    PolicyId,
    RulePackId,
    PatchDigestInPatch,
    ReceiptNone,
    ReceiptRule,
    ReceiptScopeHash,
    ReceiptScope,
    ReceiptDisposition,
    ReceiptRemove,
    ReceiptDup,
    ReceiptTx,
    ReceiptBlockers,
    OutputsAdd,
    OutputsByte,
    AtomWriteAdd,
}

pub const ENTRY_FIELDS: &[EntryField] = &[
    EntryField::WorldlineId,
    EntryField::WorldlineTick,
    EntryField::GlobalTick,
    EntryField::HeadNone,
    EntryField::HeadOtherHead,
    EntryField::HeadOtherWorldline,
    EntryField::ParentWorldline,
    EntryField::ParentTick,
    EntryField::ParentCommit,
    EntryField::ParentsDrop,
    EntryField::ParentsExtra,
    EntryField::ParentsGrandparent,
    EntryField::EventKind,
    EntryField::StateRoot,
    EntryField::PatchDigestExpected,
    EntryField::CommitHash,
    EntryField::PatchNone,
    EntryField::PatchWarp,
    EntryField::OpRemove,
    EntryField::OpDuplicate,
    EntryField::OpSwap,
    EntryField::OpAlter,
    EntryField::OpAlter,
    EntryField::OpAlter,
    EntryField::OpInsert,
    EntryField::InSlotRemove,
    EntryField::InSlotDup,
    EntryField::InSlotReverse,
    EntryField::InSlotAlter,
    EntryField::InSlotAdd,
    EntryField::OutSlotRemove,
    EntryField::OutSlotDup,
    EntryField::OutSlotReverse,
    EntryField::OutSlotAlter,
    EntryField::OutSlotAdd,
    EntryField::HeaderPlan,
    EntryField::HeaderDecision,
    EntryField::HeaderRewrites,
    EntryField::HeaderGlobalTick,
    EntryField::PolicyId,
    EntryField::RulePackId,
    EntryField::PatchDigestInPatch,
    EntryField::ReceiptNone,
    EntryField::ReceiptRule,
    EntryField::ReceiptScopeHash,
    EntryField::ReceiptScope,
    EntryField::ReceiptDisposition,
    EntryField::ReceiptRemove,
    EntryField::ReceiptDup,
    EntryField::ReceiptTx,
    EntryField::ReceiptBlockers,
    EntryField::OutputsAdd,
    EntryField::OutputsByte,
    EntryField::AtomWriteAdd,
];

impl EntryField {
    pub fn name(self) -> &'static str {
        match self {
            EntryField::WorldlineId => "entry_worldline_id",
            EntryField::WorldlineTick => "entry_worldline_tick",
            EntryField::GlobalTick => "commit_global_tick",
            EntryField::HeadNone => "head_key_none",
            EntryField::HeadOtherHead => "head_key",
            EntryField::HeadOtherWorldline => "head_key_worldline",
            EntryField::ParentWorldline => "parent_worldline",
            EntryField::ParentTick => "parent_tick",
            EntryField::ParentCommit => "parent_commit",
            EntryField::ParentsDrop => "parents_dropped",
            EntryField::ParentsExtra => "parents_extra",
            EntryField::ParentsGrandparent => "parents_grandparent",
            EntryField::EventKind => "event_kind",
            EntryField::StateRoot => "expected_state_root",
            EntryField::PatchDigestExpected => "expected_patch_digest",
            EntryField::CommitHash => "expected_commit_hash",
            EntryField::PatchNone => "patch_none",
            EntryField::PatchWarp => "patch_warp_id",
            EntryField::OpRemove => "op_removed",
            EntryField::OpDuplicate => "op_duplicated",
            EntryField::OpSwap => "op_reordered",
            EntryField::OpAlter => "op_field",
            EntryField::OpInsert => "op_inserted",
            EntryField::InSlotRemove => "in_slot_removed",
            EntryField::InSlotDup => "in_slot_duplicated",
            EntryField::InSlotReverse => "in_slots_reordered",
            EntryField::InSlotAlter => "in_slot_field",
            EntryField::InSlotAdd => "in_slot_added",
            EntryField::OutSlotRemove => "out_slot_removed",
            EntryField::OutSlotDup => "out_slot_duplicated",
            EntryField::OutSlotReverse => "out_slots_reordered",
            EntryField::OutSlotAlter => "out_slot_field",
            EntryField::OutSlotAdd => "out_slot_added",
            EntryField::HeaderPlan => "plan_digest",
            EntryField::HeaderDecision => "decision_digest",
            EntryField::HeaderRewrites => "rewrites_digest",
            EntryField::HeaderGlobalTick => "header_commit_global_tick",
            EntryField::PolicyId => "policy_id",
            EntryField::RulePackId => "rule_pack_id",
            EntryField::PatchDigestInPatch => "patch_digest_in_patch",
            EntryField::ReceiptNone => "tick_receipt_none",
            EntryField::ReceiptRule => "receipt_entry_rule",
            EntryField::ReceiptScopeHash => "receipt_entry_scope_hash",
            EntryField::ReceiptScope => "receipt_entry_scope",
            EntryField::ReceiptDisposition => "receipt_entry_disposition",
            EntryField::ReceiptRemove => "receipt_entry_removed",
            EntryField::ReceiptDup => "receipt_entry_duplicated",
            EntryField::ReceiptTx => "receipt_tx",
            EntryField::ReceiptBlockers => "receipt_blockers",
            EntryField::OutputsAdd => "outputs",
            EntryField::OutputsByte => "outputs",
            EntryField::AtomWriteAdd => "atom_writes",
        }
    }

    /// Fields the property does not say are chained (merkle-commit.md decisions 2, 3, 5): an accepted
    /// alteration is counted, not flagged. Receipt entries are bound only to `decision_digest`, which
    /// commit id v2 does not commit to, so a receipt forged together with that digest is unbound too.
    pub fn unbound(self) -> bool {
        matches!(
            self,
            EntryField::GlobalTick
                | EntryField::HeadOtherHead
                | EntryField::HeadNone
                | EntryField::HeadOtherWorldline
                | EntryField::EventKind
                | EntryField::HeaderPlan
                | EntryField::HeaderDecision
                | EntryField::HeaderRewrites
                | EntryField::HeaderGlobalTick
                | EntryField::ReceiptNone
                | EntryField::ReceiptRule
                | EntryField::ReceiptScopeHash
                | EntryField::ReceiptScope
                | EntryField::ReceiptDisposition
                | EntryField::ReceiptRemove
                | EntryField::ReceiptDup
                | EntryField::ReceiptBlockers
                | EntryField::OutputsAdd
                | EntryField::OutputsByte
                | EntryField::AtomWriteAdd
        )
    }

    fn is_receipt_content(self) -> bool {
        matches!(
            self,
            EntryField::ReceiptRule | EntryField::ReceiptScopeHash | EntryField::ReceiptScope | EntryField::ReceiptDisposition | EntryField::ReceiptRemove | EntryField::ReceiptDup
        )
    }
}

/// Context an entry mutation may draw replacement values from.
pub struct Env {
    pub other_worldline: Option<WorldlineId>,
    /// an older entry of the same worldline (tick <= t-2), if any
    pub older: Option<ProvenanceRef>,
}

pub fn flip(h: &mut H, aux: u32, salt: u8) {
    h[(aux as usize) % 32] ^= salt | 1;
}

fn alt_type(t: TypeId, salt: u8) -> TypeId {
    let mut k = salt % ids::N_TYPES;
    if ids::ty(k) == t {
        k = (k + 1) % ids::N_TYPES;
    }
    ids::ty(k)
}

fn alt_node(n: warp_core::NodeId, aux: u32, salt: u8) -> warp_core::NodeId {
    if salt & 2 == 0 {
        let mut k = (aux as u8) % ids::N_NODES;
        if ids::node(k) == n {
            k = (k + 1) % ids::N_NODES;
        }
        ids::node(k)
    } else {
        let mut b = n.0;
        flip(&mut b, aux, salt);
        warp_core::NodeId(b)
    }
}

fn alt_edge(e: warp_core::EdgeId, aux: u32, salt: u8) -> warp_core::EdgeId {
    if salt & 2 == 0 {
        let mut k = (aux as u8) % ids::N_EDGES;
        if ids::edge(k) == e {
            k = (k + 1) % ids::N_EDGES;
        }
        ids::edge(k)
    } else {
        let mut b = e.0;
        flip(&mut b, aux, salt);
        warp_core::EdgeId(b)
    }
}

fn alt_warp(w: warp_core::WarpId, salt: u8) -> warp_core::WarpId {
    let mut k = salt % ids::N_WARPS;
    if ids::warp(k) == w {
        k = (k + 1) % ids::N_WARPS;
    }
    ids::warp(k)
}

fn alt_value(v: &Option<AttachmentValue>, aux: u32, salt: u8) -> Option<AttachmentValue> {
    match v {
        None => Some(AttachmentValue::Atom(AtomPayload::new(ids::ty(salt % ids::N_TYPES), bytes::Bytes::from(vec![b'f', salt])))),
        Some(AttachmentValue::Atom(a)) => match salt % 4 {
            0 => None,
            1 => Some(AttachmentValue::Atom(AtomPayload::new(alt_type(a.type_id, salt), a.bytes.clone()))),
            2 if !a.bytes.is_empty() => {
                let mut b = a.bytes.to_vec();
                let i = (aux as usize) % b.len();
                b[i] ^= salt | 1;
                Some(AttachmentValue::Atom(AtomPayload::new(a.type_id, bytes::Bytes::from(b))))
            }
            _ => {
                let mut b = a.bytes.to_vec();
                b.push(salt);
                Some(AttachmentValue::Atom(AtomPayload::new(a.type_id, bytes::Bytes::from(b))))
            }
        },
        Some(AttachmentValue::Descend(w)) => Some(AttachmentValue::Descend(alt_warp(*w, salt))),
    }
}

fn alt_key(k: &AttachmentKey, aux: u32, salt: u8) -> AttachmentKey {
    match (k.owner, salt % 3) {
        (_, 0) => AttachmentKey { owner: k.owner, plane: if k.plane == AttachmentPlane::Alpha { AttachmentPlane::Beta } else { AttachmentPlane::Alpha } },
        (AttachmentOwner::Node(n), _) => AttachmentKey { owner: AttachmentOwner::Node(NodeKey { warp_id: n.warp_id, local_id: alt_node(n.local_id, aux, salt) }), plane: k.plane },
        (AttachmentOwner::Edge(e), _) => AttachmentKey { owner: AttachmentOwner::Edge(warp_core::EdgeKey { warp_id: e.warp_id, local_id: alt_edge(e.local_id, aux, salt) }), plane: k.plane },
    }
}

/// Alter one field of one op (`part` selects the field).
pub fn alter_op(op: &WarpOp, part: u32, aux: u32, salt: u8) -> WarpOp {
    match op.clone() {
        WarpOp::UpsertNode { mut node, mut record } => {
            match part % 3 {
                0 => record.ty = alt_type(record.ty, salt),
                1 => node.local_id = alt_node(node.local_id, aux, salt),
                _ => node.warp_id = alt_warp(node.warp_id, salt),
            }
            WarpOp::UpsertNode { node, record }
        }
        WarpOp::DeleteNode { mut node } => {
            match part % 2 {
                0 => node.local_id = alt_node(node.local_id, aux, salt),
                _ => node.warp_id = alt_warp(node.warp_id, salt),
            }
            WarpOp::DeleteNode { node }
        }
        WarpOp::UpsertEdge { mut warp_id, mut record } => {
            match part % 5 {
                0 => record.ty = alt_type(record.ty, salt),
                1 => record.to = alt_node(record.to, aux, salt),
                2 => record.from = alt_node(record.from, aux, salt),
                3 => record.id = alt_edge(record.id, aux, salt),
                _ => warp_id = alt_warp(warp_id, salt),
            }
            WarpOp::UpsertEdge { warp_id, record }
        }
        WarpOp::DeleteEdge { mut warp_id, mut from, mut edge_id } => {
            match part % 3 {
                0 => edge_id = alt_edge(edge_id, aux, salt),
                1 => from = alt_node(from, aux, salt),
                _ => warp_id = alt_warp(warp_id, salt),
            }
            WarpOp::DeleteEdge { warp_id, from, edge_id }
        }
        WarpOp::SetAttachment { key, value } => match part % 3 {
            0 | 1 => WarpOp::SetAttachment { key, value: alt_value(&value, aux, salt) },
            _ => WarpOp::SetAttachment { key: alt_key(&key, aux, salt), value },
        },
        WarpOp::OpenPortal { key, child_warp, child_root, init } => match part % 3 {
            0 => WarpOp::OpenPortal { key, child_warp: alt_warp(child_warp, salt), child_root, init },
            1 => WarpOp::OpenPortal { key, child_warp, child_root: alt_node(child_root, aux, salt), init },
            _ => WarpOp::OpenPortal { key: alt_key(&key, aux, salt), child_warp, child_root, init },
        },
        WarpOp::UpsertWarpInstance { mut instance } => {
            match part % 2 {
                0 => instance.root_node = alt_node(instance.root_node, aux, salt),
                _ => instance.warp_id = alt_warp(instance.warp_id, salt),
            }
            WarpOp::UpsertWarpInstance { instance }
        }
        WarpOp::DeleteWarpInstance { warp_id } => WarpOp::DeleteWarpInstance { warp_id: alt_warp(warp_id, salt) },
    }
}

/// An op that writes a visible value somewhere in the root instance (used for insertions and for
/// altering checkpoint states): reachable data node attachment or a fresh isolated node.
pub fn junk_op(root_warp: warp_core::WarpId, aux: u32, salt: u8) -> WarpOp {
    if salt & 1 == 0 {
        WarpOp::UpsertNode { node: NodeKey { warp_id: root_warp, local_id: ids::pnode(40_000 + (aux % 1000) as u16, salt % 4) }, record: warp_core::NodeRecord { ty: ids::ty(salt % ids::N_TYPES) } }
    } else {
        WarpOp::SetAttachment {
            key: AttachmentKey::node_alpha(NodeKey { warp_id: root_warp, local_id: ids::root_node(0) }),
            value: Some(AttachmentValue::Atom(AtomPayload::new(ids::ty(salt % ids::N_TYPES), bytes::Bytes::from(vec![b'j', salt, (aux & 0xff) as u8])))),
        }
    }
}

fn alt_slot(s: &SlotId, aux: u32, salt: u8) -> SlotId {
    match *s {
        SlotId::Node(n) => SlotId::Node(NodeKey { warp_id: n.warp_id, local_id: alt_node(n.local_id, aux, salt) }),
        SlotId::Edge(e) => SlotId::Edge(warp_core::EdgeKey { warp_id: e.warp_id, local_id: alt_edge(e.local_id, aux, salt) }),
        SlotId::Attachment(k) => SlotId::Attachment(alt_key(&k, aux, salt)),
        SlotId::Port((w, p)) => SlotId::Port((w, p ^ u64::from(salt | 1))),
    }
}

fn mutate_slots(v: &mut Vec<SlotId>, what: u8, aux: u32, salt: u8, warp: warp_core::WarpId) -> bool {
    let n = v.len();
    match what {
        0 if n > 0 => {
            v.remove((aux as usize) % n);
            true
        }
        1 if n > 0 => {
            let s = v[(aux as usize) % n];
            v.push(s);
            true
        }
        2 if n > 1 => {
            let before = v.clone();
            v.reverse();
            *v != before
        }
        3 if n > 0 => {
            let i = (aux as usize) % n;
            v[i] = alt_slot(&v[i], aux, salt);
            true
        }
        4 => {
            v.push(SlotId::Node(NodeKey { warp_id: warp, local_id: ids::pnode(50_000 + (aux % 1000) as u16, salt % 4) }));
            true
        }
        _ => false,
    }
}

fn rebuild_receipt(r: &TickReceipt, entries: Vec<TickReceiptEntry>, blockers: Vec<Vec<u32>>, tx: TxId) -> Option<TickReceipt> {
    TickReceipt::try_from_retained_parts(tx, entries, blockers).ok().filter(|n| n != r)
}

fn receipt_parts(r: &TickReceipt) -> (Vec<TickReceiptEntry>, Vec<Vec<u32>>) {
    let entries = r.entries().to_vec();
    let blockers = (0..entries.len()).map(|i| r.blocked_by(i).to_vec()).collect();
    (entries, blockers)
}

/// Apply a single-field alteration. Returns false when the field cannot be altered on this entry
/// (e.g. no op to remove); the caller then skips the tamper without counting it.
pub fn mutate_entry(e: &mut ProvenanceEntry, f: EntryField, aux: u32, salt: u8, env: &Env) -> bool {
    let before = e.clone();
    let a = aux as usize;
    match f {
        EntryField::WorldlineId => {
            e.worldline_id = match env.other_worldline {
                Some(o) if salt & 1 == 0 => o,
                _ => {
                    let mut b = *e.worldline_id.as_bytes();
                    flip(&mut b, aux, salt);
                    WorldlineId::from_bytes(b)
                }
            }
        }
        EntryField::WorldlineTick => {
            let t = e.worldline_tick.as_u64();
            e.worldline_tick = WorldlineTick::from_raw(match salt % 3 {
                0 => t + 1,
                1 if t > 0 => t - 1,
                _ => t + 2 + u64::from(aux % 5),
            });
        }
        EntryField::GlobalTick => e.commit_global_tick = GlobalTick::from_raw(e.commit_global_tick.as_u64() + 1 + u64::from(salt % 7)),
        EntryField::HeadNone => e.head_key = None,
        EntryField::HeadOtherHead => {
            if let Some(h) = e.head_key.as_mut() {
                h.head_id = warp_core::make_head_id(&format!("verif/forged-h{salt}"));
            }
        }
        EntryField::HeadOtherWorldline => {
            if let Some(h) = e.head_key.as_mut() {
                h.worldline_id = match env.other_worldline {
                    Some(o) => o,
                    None => {
                        let mut b = *h.worldline_id.as_bytes();
                        flip(&mut b, aux, salt);
                        WorldlineId::from_bytes(b)
                    }
                };
            }
        }
        EntryField::ParentWorldline => {
            if !e.parents.is_empty() {
                let i = a % e.parents.len();
                e.parents[i].worldline_id = match env.other_worldline {
                    Some(o) if salt & 1 == 0 => o,
                    _ => {
                        let mut b = *e.parents[i].worldline_id.as_bytes();
                        flip(&mut b, aux, salt);
                        WorldlineId::from_bytes(b)
                    }
                };
            }
        }
        EntryField::ParentTick => {
            if !e.parents.is_empty() {
                let i = a % e.parents.len();
                let t = e.parents[i].worldline_tick.as_u64();
                e.parents[i].worldline_tick = WorldlineTick::from_raw(if salt & 1 == 0 && t > 0 { t - 1 } else { t + 1 });
            }
        }
        EntryField::ParentCommit => {
            if !e.parents.is_empty() {
                let i = a % e.parents.len();
                flip(&mut e.parents[i].commit_hash, aux, salt);
            }
        }
        EntryField::ParentsDrop => e.parents.clear(),
        EntryField::ParentsExtra => {
            let extra = env.older.unwrap_or(ProvenanceRef { worldline_id: e.worldline_id, worldline_tick: WorldlineTick::from_raw(0), commit_hash: [salt | 1; 32] });
            if !e.parents.contains(&extra) {
                e.parents.push(extra);
                e.parents.sort_by(|x, y| x.commit_hash.cmp(&y.commit_hash));
            }
        }
        EntryField::ParentsGrandparent => {
            if let Some(o) = env.older {
                e.parents = vec![o];
            }
        }
        EntryField::EventKind => {
            e.event_kind = match salt % 3 {
                0 => ProvenanceEventKind::ConflictArtifact { artifact_id: [salt | 1; 32] },
                1 => ProvenanceEventKind::MergeImport { source_worldline: e.worldline_id, source_worldline_tick: e.worldline_tick, op_id: [salt | 1; 32] },
                _ => ProvenanceEventKind::CrossWorldlineMessage { source_worldline: e.worldline_id, source_worldline_tick: e.worldline_tick, message_id: [salt | 1; 32] },
            }
        }
        EntryField::StateRoot => flip(&mut e.expected.state_root, aux, salt),
        EntryField::PatchDigestExpected => flip(&mut e.expected.patch_digest, aux, salt),
        EntryField::CommitHash => flip(&mut e.expected.commit_hash, aux, salt),
        EntryField::PatchNone => e.patch = None,
        EntryField::ReceiptNone => e.tick_receipt = None,
        EntryField::ReceiptTx => {
            if let Some(r) = e.tick_receipt.as_ref() {
                let (en, bl) = receipt_parts(r);
                if let Some(n) = rebuild_receipt(r, en, bl, TxId::from_raw(r.tx().value() + 1 + u64::from(salt % 3))) {
                    e.tick_receipt = Some(n);
                }
            }
        }
        EntryField::ReceiptBlockers => {
            if let Some(r) = e.tick_receipt.as_ref() {
                let (en, mut bl) = receipt_parts(r);
                // change the blocker attribution of a rejected entry to another applied earlier entry
                for i in 0..en.len() {
                    if matches!(en[i].disposition, TickReceiptDisposition::Rejected(TickReceiptRejection::FootprintConflict)) {
                        let applied: Vec<u32> = (0..i).filter(|k| en[*k].disposition == TickReceiptDisposition::Applied).map(|k| k as u32).collect();
                        let alt: Vec<u32> = if bl[i].len() > 1 { vec![bl[i][0]] } else { applied.iter().copied().filter(|k| !bl[i].contains(k)).take(1).collect() };
                        if !alt.is_empty() && alt != bl[i] {
                            bl[i] = alt;
                            break;
                        }
                    }
                }
                if let Some(n) = rebuild_receipt(r, en, bl, r.tx()) {
                    e.tick_receipt = Some(n);
                }
            }
        }
        EntryField::ReceiptRule | EntryField::ReceiptScopeHash | EntryField::ReceiptScope | EntryField::ReceiptDisposition | EntryField::ReceiptRemove | EntryField::ReceiptDup => {
            if let Some(r) = e.tick_receipt.as_ref() {
                let (mut en, mut bl) = receipt_parts(r);
                if en.is_empty() {
                    return false;
                }
                let i = a % en.len();
                match f {
                    EntryField::ReceiptRule => flip(&mut en[i].rule_id, aux, salt),
                    EntryField::ReceiptScopeHash => flip(&mut en[i].scope_hash, aux, salt),
                    EntryField::ReceiptScope => en[i].scope.local_id = alt_node(en[i].scope.local_id, aux, salt),
                    EntryField::ReceiptDisposition => {
                        // flip applied <-> rejected keeping the blocker invariants of the retained-parts constructor
                        match en[i].disposition {
                            TickReceiptDisposition::Applied => {
                                // only an entry nobody is blocked by, and that has an applied predecessor, can become a conflict
                                let used = bl.iter().any(|b| b.contains(&(i as u32)));
                                let pred = (0..i).find(|k| en[*k].disposition == TickReceiptDisposition::Applied);
                                match (used, pred) {
                                    (false, Some(k)) => {
                                        en[i].disposition = TickReceiptDisposition::Rejected(TickReceiptRejection::FootprintConflict);
                                        bl[i] = vec![k as u32];
                                    }
                                    (false, None) => en[i].disposition = TickReceiptDisposition::Rejected(TickReceiptRejection::ExecutableOperationObstruction),
                                    _ => return false,
                                }
                            }
                            TickReceiptDisposition::Rejected(_) => {
                                en[i].disposition = TickReceiptDisposition::Applied;
                                bl[i].clear();
                            }
                        }
                    }
                    EntryField::ReceiptRemove => {
                        // removing an entry shifts indices: only remove the last one
                        en.pop();
                        bl.pop();
                    }
                    _ => {
                        let x = en[i];
                        en.push(TickReceiptEntry { disposition: TickReceiptDisposition::Applied, ..x });
                        bl.push(Vec::new());
                    }
                }
                if let Some(n) = rebuild_receipt(r, en, bl, r.tx()) {
                    e.tick_receipt = Some(n);
                }
            }
        }
        EntryField::OutputsAdd => e.outputs.push((TypeId([salt | 1; 32]), vec![salt, (aux & 0xff) as u8])),
        EntryField::OutputsByte => {
            if e.outputs.is_empty() {
                e.outputs.push((TypeId([salt | 1; 32]), vec![salt]));
            } else {
                let i = a % e.outputs.len();
                if e.outputs[i].1.is_empty() {
                    e.outputs[i].1.push(salt);
                } else {
                    let k = a % e.outputs[i].1.len();
                    e.outputs[i].1[k] ^= salt | 1;
                }
            }
        }
        EntryField::AtomWriteAdd => {
            let w = e.patch.as_ref().map(|p| p.warp_id).unwrap_or(ids::warp(0));
            e.atom_writes.push(AtomWrite::new(NodeKey { warp_id: w, local_id: ids::node(salt % ids::N_NODES) }, [salt | 1; 32], e.commit_global_tick.as_u64(), None, vec![salt]));
        }
        _ => {
            let Some(p) = e.patch.as_mut() else { return false };
            match f {
                EntryField::PatchWarp => p.warp_id = alt_warp(p.warp_id, salt),
                EntryField::OpRemove => {
                    if !p.ops.is_empty() {
                        p.ops.remove(a % p.ops.len());
                    }
                }
                EntryField::OpDuplicate => {
                    if !p.ops.is_empty() {
                        let i = a % p.ops.len();
                        let op = p.ops[i].clone();
                        // duplicate in place, at the end, or as an altered earlier twin (same sort key, last wins)
                        match salt % 3 {
                            0 => p.ops.insert(i, op),
                            1 => p.ops.push(op),
                            _ => {
                                let twin = alter_op(&op, 0, aux, salt);
                                if twin.sort_key() == op.sort_key() {
                                    p.ops.insert(i, twin);
                                } else {
                                    p.ops.insert(i, op);
                                }
                            }
                        }
                    }
                }
                EntryField::OpSwap => {
                    let n = p.ops.len();
                    if n > 1 {
                        let i = a % n;
                        let j = (i + 1 + (salt as usize) % (n - 1)) % n;
                        p.ops.swap(i, j);
                    }
                }
                EntryField::OpAlter => {
                    if !p.ops.is_empty() {
                        let i = a % p.ops.len();
                        p.ops[i] = alter_op(&p.ops[i], aux / 7, aux, salt);
                    }
                }
                EntryField::OpInsert => {
                    let op = junk_op(p.warp_id, aux, salt);
                    let i = a % (p.ops.len() + 1);
                    p.ops.insert(i, op);
                }
                EntryField::InSlotRemove => return mutate_slots(&mut p.in_slots, 0, aux, salt, p.warp_id),
                EntryField::InSlotDup => return mutate_slots(&mut p.in_slots, 1, aux, salt, p.warp_id),
                EntryField::InSlotReverse => return mutate_slots(&mut p.in_slots, 2, aux, salt, p.warp_id),
                EntryField::InSlotAlter => return mutate_slots(&mut p.in_slots, 3, aux, salt, p.warp_id),
                EntryField::InSlotAdd => return mutate_slots(&mut p.in_slots, 4, aux, salt, p.warp_id),
                EntryField::OutSlotRemove => return mutate_slots(&mut p.out_slots, 0, aux, salt, p.warp_id),
                EntryField::OutSlotDup => return mutate_slots(&mut p.out_slots, 1, aux, salt, p.warp_id),
                EntryField::OutSlotReverse => return mutate_slots(&mut p.out_slots, 2, aux, salt, p.warp_id),
                EntryField::OutSlotAlter => return mutate_slots(&mut p.out_slots, 3, aux, salt, p.warp_id),
                EntryField::OutSlotAdd => return mutate_slots(&mut p.out_slots, 4, aux, salt, p.warp_id),
                EntryField::HeaderPlan => flip(&mut p.header.plan_digest, aux, salt),
                EntryField::HeaderDecision => flip(&mut p.header.decision_digest, aux, salt),
                EntryField::HeaderRewrites => flip(&mut p.header.rewrites_digest, aux, salt),
                EntryField::HeaderGlobalTick => p.header.commit_global_tick = GlobalTick::from_raw(p.header.commit_global_tick.as_u64() + 1 + u64::from(salt % 7)),
                EntryField::PolicyId => p.header.policy_id ^= u32::from(salt | 1),
                EntryField::RulePackId => flip(&mut p.header.rule_pack_id, aux, salt),
                EntryField::PatchDigestInPatch => flip(&mut p.patch_digest, aux, salt),
                _ => return false,
            }
        }
    }
    *e != before
}

/// Patch digest as the verifier computes it (public `WarpTickPatchV1` constructor).
pub fn patch_digest_of(p: &WorldlineTickPatchV1) -> H {
    WarpTickPatchV1::new(p.policy_id(), p.rule_pack_id(), TickCommitStatus::Committed, p.in_slots.clone(), p.out_slots.clone(), p.ops.clone()).digest()
}

pub fn commit_id_of(e: &ProvenanceEntry) -> Option<H> {
    let p = e.patch.as_ref()?;
    let parents: Vec<H> = e.parents.iter().map(|r| r.commit_hash).collect();
    Some(compute_commit_hash_v2(&e.expected.state_root, &parents, &e.expected.patch_digest, p.policy_id()))
}

/// Forger recomputations that need no other link of the chain.
pub fn recompute_patch_digest(e: &mut ProvenanceEntry) {
    if let Some(p) = e.patch.as_mut() {
        let d = patch_digest_of(p);
        p.patch_digest = d;
        e.expected.patch_digest = d;
    }
}

pub fn recompute_commit_id(e: &mut ProvenanceEntry) {
    if let Some(c) = commit_id_of(e) {
        e.expected.commit_hash = c;
    }
}

/// When the receipt content was forged, a level >= L2 forger also refreshes the (uncommitted)
/// decision digest the receipt is checked against.
pub fn refresh_decision_digest(e: &mut ProvenanceEntry, f: EntryField) {
    if f.is_receipt_content() {
        if let (Some(r), Some(p)) = (e.tick_receipt.as_ref(), e.patch.as_mut()) {
            p.header.decision_digest = r.digest();
        }
    }
}

// ---------------------------------------------------------------------------
// Plans
// ---------------------------------------------------------------------------

#[derive(Clone, Copy, Debug, Serialize, Deserialize, PartialEq, Eq)]
pub enum CpField {
    Tick,
    StateHash,
    StateHashOtherTick,
    StateOtherTick,
    GraphReachable,
    GraphUnreachable,
    NoHistory,
    FromSibling,
    OtherWorldline,
}

impl CpField {
    pub fn name(self) -> &'static str {
        match self {
            CpField::Tick => "checkpoint_tick",
            CpField::StateHash => "checkpoint_state_hash",
            CpField::StateHashOtherTick => "checkpoint_state_hash_other_tick",
            CpField::StateOtherTick => "checkpoint_state_other_tick",
            CpField::GraphReachable => "checkpoint_state_graph",
            CpField::GraphUnreachable => "checkpoint_state_unreachable_graph",
            CpField::NoHistory => "checkpoint_state_history_dropped",
            CpField::FromSibling => "checkpoint_state_from_sibling",
            CpField::OtherWorldline => "checkpoint_state_other_worldline",
        }
    }
}

pub const CP_FIELDS: &[CpField] = &[
    CpField::Tick,
    CpField::StateHash,
    CpField::StateHashOtherTick,
    CpField::StateOtherTick,
    CpField::GraphReachable,
    CpField::GraphUnreachable,
    CpField::NoHistory,
    CpField::FromSibling,
    CpField::OtherWorldline,
];

#[derive(Clone, Copy, Debug, Serialize, Deserialize, PartialEq, Eq)]
pub enum BtrField {
    Worldline,
    U0,
    Input,
    Output,
    PayloadWorldline,
    PayloadStart,
    Entry(EntryField),
    EntryDrop,
    EntryDup,
    EntrySwap,
    Counter,
    AuthTag,
}

impl BtrField {
    pub fn name(self) -> String {
        match self {
            BtrField::Worldline => "btr_worldline_id".into(),
            BtrField::U0 => "btr_u0_ref".into(),
            BtrField::Input => "btr_input_boundary".into(),
            BtrField::Output => "btr_output_boundary".into(),
            BtrField::PayloadWorldline => "btr_payload_worldline".into(),
            BtrField::PayloadStart => "btr_payload_start_tick".into(),
            BtrField::Entry(f) => format!("btr_entry.{}", f.name()),
            BtrField::EntryDrop => "btr_entry_dropped".into(),
            BtrField::EntryDup => "btr_entry_duplicated".into(),
            BtrField::EntrySwap => "btr_entries_swapped".into(),
            BtrField::Counter => "btr_logical_counter".into(),
            BtrField::AuthTag => "btr_auth_tag".into(),
        }
    }
    pub fn unbound(self) -> bool {
        matches!(self, BtrField::Counter | BtrField::AuthTag)
    }
}

#[derive(Clone, Copy, Debug, Serialize, Deserialize, PartialEq, Eq)]
pub enum RefPart {
    Worldline,
    Tick,
    Commit,
}

#[derive(Clone, Copy, Debug, Serialize, Deserialize, PartialEq, Eq)]
pub enum SfxField {
    Base(RefPart),
    Target(RefPart),
    SourceWorldline,
    StartTick,
    EndTick,
    Entry(RefPart),
    EntryDrop,
    EntryDup,
    EntrySwap,
    Boundary,
    WitnessDigest,
    BundleDigest,
}

impl SfxField {
    pub fn name(self) -> &'static str {
        match self {
            SfxField::Base(_) => "suffix_base_frontier",
            SfxField::Target(_) => "suffix_target_frontier",
            SfxField::SourceWorldline => "suffix_source_worldline",
            SfxField::StartTick => "suffix_start_tick",
            SfxField::EndTick => "suffix_end_tick",
            SfxField::Entry(_) => "suffix_source_entry",
            SfxField::EntryDrop => "suffix_source_entry_dropped",
            SfxField::EntryDup => "suffix_source_entry_duplicated",
            SfxField::EntrySwap => "suffix_source_entries_swapped",
            SfxField::Boundary => "suffix_boundary_witness",
            SfxField::WitnessDigest => "suffix_witness_digest",
            SfxField::BundleDigest => "suffix_bundle_digest",
        }
    }
}

pub const REF_PARTS: &[RefPart] = &[RefPart::Worldline, RefPart::Tick, RefPart::Commit];

#[derive(Clone, Copy, Debug, Serialize, Deserialize, PartialEq, Eq)]
pub enum Kind {
    /// alter one field of the entry at the selected position
    Entry(EntryField),
    /// entries t and t+1 exchanged
    Swap,
    /// entry t served again at t+1 (L1: verbatim; L2+: its tick field rewritten to t+1)
    Duplicate,
    /// the store forgets everything from tick k on
    Truncate,
    /// entry of another worldline at the same tick (L1 verbatim, L2+: worldline id fields rewritten)
    TransplantWorldline,
    /// entry of the sibling history (same world, one intent changed) at the same tick
    TransplantSibling,
    InitialBoundary,
    U0,
    Checkpoint(CpField),
    Btr(BtrField),
    Suffix(SfxField),
}

impl Kind {
    pub fn name(&self) -> String {
        match self {
            Kind::Entry(f) => f.name().to_owned(),
            Kind::Swap => "entries_swapped".into(),
            Kind::Duplicate => "entry_duplicated".into(),
            Kind::Truncate => "history_truncated".into(),
            Kind::TransplantWorldline => "transplanted_other_worldline_entry".into(),
            Kind::TransplantSibling => "transplanted_sibling_entry".into(),
            Kind::InitialBoundary => "initial_boundary_hash".into(),
            Kind::U0 => "u0_ref".into(),
            Kind::Checkpoint(f) => f.name().to_owned(),
            Kind::Btr(f) => f.name(),
            Kind::Suffix(f) => f.name().to_owned(),
        }
    }
}

/// How the tampered material reaches a verifier.
#[derive(Clone, Copy, Debug, Serialize, Deserialize, PartialEq, Eq)]
pub enum Path {
    /// `TamperStore` handed to `PlaybackCursor::seek_to/step`
    Seam,
    /// fresh `ProvenanceService`: register + append every entry in order, then replay / checkpoint / fork / validate_btr
    Rebuild,
}

impl Path {
    pub fn name(self) -> &'static str {
        match self {
            Path::Seam => "seam",
            Path::Rebuild => "rebuild",
        }
    }
}

#[derive(Clone, Debug, Serialize, Deserialize, PartialEq, Eq)]
pub struct Tamper {
    pub kind: Kind,
    pub path: Path,
    pub level: Level,
    /// worldline selector
    pub wl: u8,
    /// position selector (tick / checkpoint index / payload index), resolved modulo
    pub pos: u32,
    /// element selector inside the field (op index, byte index, ...)
    pub aux: u32,
    /// new-value selector
    pub salt: u8,
    /// L3 on an op/patch change: also recompute the expected state root (fully consistent forgery)
    pub fix_state_root: bool,
    /// seam path: wrap the store that holds the honest checkpoints (true) or the one without (false)
    pub with_checkpoints: bool,
}
