//! Delivery paths (seam / rebuild / BTR / suffix) and the judgement of what a verifier returned.

use std::collections::BTreeMap;

use warp_core::{
    CursorId, CursorRole, PlaybackCursor, PlaybackMode, ProvenanceEntry, ProvenanceEventKind, ProvenanceService, ProvenanceStore, ReplayCheckpoint,
    StepResult, WorldlineState, WorldlineTick,
};

use super::history::{diff_v, verified, Hist, WlHist, V};
use super::store::TamperStore;
use crate::kernel::{catch, RunCtx};
use crate::world::runtime::wl_id;

/// What one verification call returned.
#[derive(Clone, Debug)]
pub enum R {
    Ok(V),
    Err(String),
    Panic(String),
}

#[derive(Clone, Debug)]
pub struct Obs {
    pub target: u64,
    pub mode: &'static str,
    /// altered material was handed to the verifier during this call
    pub consulted: bool,
    pub r: R,
}

#[derive(Default, Debug)]
pub struct Judged {
    /// (target, mode) accepted with the identical verified state while consulting altered material
    pub accepted: Vec<(u64, &'static str)>,
    /// typed errors (first word of the error) while consulting altered material
    pub rejected: Vec<(u64, &'static str, String)>,
    /// Ok with a verified state different from the untampered one
    pub wrong: Vec<(u64, &'static str, String)>,
    pub panics: Vec<(u64, &'static str, String)>,
    pub calls: u64,
}

impl Judged {
    pub fn absorb(&mut self, obs: Vec<Obs>, vref: &[V]) {
        for o in obs {
            self.calls += 1;
            match o.r {
                R::Panic(p) => self.panics.push((o.target, o.mode, p)),
                R::Err(e) => {
                    if o.consulted {
                        self.rejected.push((o.target, o.mode, e));
                    }
                }
                R::Ok(v) => match vref.get(o.target as usize) {
                    None => self.wrong.push((o.target, o.mode, format!("verified a state for tick {} but the history has only {} ticks", o.target, vref.len().saturating_sub(1)))),
                    Some(want) => match diff_v(&v, want) {
                        Some(d) => self.wrong.push((o.target, o.mode, d)),
                        None => {
                            if o.consulted {
                                self.accepted.push((o.target, o.mode));
                            }
                        }
                    },
                },
            }
        }
    }
    pub fn merge(&mut self, other: Judged) {
        self.accepted.extend(other.accepted);
        self.rejected.extend(other.rejected);
        self.wrong.extend(other.wrong);
        self.panics.extend(other.panics);
        self.calls += other.calls;
    }
}

pub fn err_name(e: &str) -> String {
    // "History(TickGap { .. })" -> "History.TickGap"; "StateRootMismatch { .. }" -> "StateRootMismatch"
    let mut out = String::new();
    let mut depth = 0;
    for part in e.split(|c: char| !(c.is_ascii_alphanumeric() || c == '_')) {
        if part.is_empty() {
            continue;
        }
        if part.chars().next().is_some_and(|c| c.is_ascii_uppercase()) {
            if depth > 0 {
                out.push('.');
            }
            out.push_str(part);
            depth += 1;
            if depth == 2 || !(part == "History" || part == "Apply") {
                break;
            }
        } else {
            break;
        }
    }
    if out.is_empty() {
        "error".to_owned()
    } else {
        out
    }
}

fn cursor_for(wl: &WlHist, pin: u64) -> Result<PlaybackCursor, String> {
    catch(|| PlaybackCursor::new(CursorId([0xC5; 32]), wl.id, wl.base.root().warp_id, CursorRole::Reader, &wl.base, WorldlineTick::from_raw(pin)))
}

/// Targets to verify: everything for short histories, a window around `pos` plus a stride otherwise.
pub fn targets_for(len: u64, pos: u64) -> Vec<u64> {
    if len <= 14 {
        return (0..=len).collect();
    }
    let mut t: Vec<u64> = (0..=len).filter(|x| *x % 4 == 0 || *x + 1 >= len || (*x + 1 >= pos && *x <= pos + 4)).collect();
    t.dedup();
    t
}

/// Hand a store to `PlaybackCursor`: fresh cursor per target (forward replay), a stepping reader
/// (`step` in Play mode), and one cursor seeking backwards (checkpoint / U0 rebuild path).
pub fn seam_sweep<P: ProvenanceStore>(store: &TamperStore<'_, P>, wl: &WlHist, targets: &[u64], ctx: &mut RunCtx) -> Vec<Obs> {
    let mut out = Vec::new();
    let max_t = targets.iter().copied().max().unwrap_or(0);
    let mut best_ok = None;
    for &t in targets {
        let Ok(mut c) = cursor_for(wl, max_t + 1) else {
            out.push(Obs { target: t, mode: "fresh", consulted: true, r: R::Panic("PlaybackCursor::new panicked".into()) });
            continue;
        };
        let before = store.served();
        let r = catch(|| c.seek_to(WorldlineTick::from_raw(t), store, &wl.base));
        ctx.count("time.verifications", 1);
        let consulted = store.served() > before;
        let r = match r {
            Err(p) => R::Panic(p),
            Ok(Err(e)) => {
                // A caller that retries the same seek on the same cursor after a typed error must not
                // be handed a state either: again a typed error, or the correct verified state.
                let r2 = catch(|| c.seek_to(WorldlineTick::from_raw(t), store, &wl.base));
                ctx.count("time.verifications", 1);
                ctx.hit("reach.seek_retried_after_error");
                let r2 = match r2 {
                    Err(p) => R::Panic(p),
                    Ok(Err(e2)) => R::Err(format!("{e2:?}")),
                    Ok(Ok(())) => {
                        if c.current_tick().as_u64() != t {
                            R::Err(format!("cursor tick {} after retried seek_to({t})", c.current_tick().as_u64()))
                        } else {
                            R::Ok(verified(c.materialized_state()))
                        }
                    }
                };
                out.push(Obs { target: t, mode: "retry", consulted: true, r: r2 });
                R::Err(format!("{e:?}"))
            }
            Ok(Ok(())) => {
                if c.current_tick().as_u64() != t {
                    R::Err(format!("cursor tick {} after seek_to({t})", c.current_tick().as_u64()))
                } else {
                    best_ok = Some(t);
                    R::Ok(verified(c.materialized_state()))
                }
            }
        };
        out.push(Obs { target: t, mode: "fresh", consulted, r });
    }
    // stepping reader
    if let Ok(mut c) = cursor_for(wl, max_t) {
        c.mode = PlaybackMode::Play;
        for _ in 0..=max_t + 1 {
            let before = store.served();
            let at = c.current_tick().as_u64();
            let r = catch(|| c.step(store, &wl.base));
            ctx.count("time.verifications", 1);
            let consulted = store.served() > before;
            match r {
                Err(p) => {
                    out.push(Obs { target: at + 1, mode: "step", consulted, r: R::Panic(p) });
                    break;
                }
                Ok(Err(e)) => {
                    out.push(Obs { target: at + 1, mode: "step", consulted, r: R::Err(format!("{e:?}")) });
                    break;
                }
                Ok(Ok(StepResult::Advanced)) => {
                    let now = c.current_tick().as_u64();
                    out.push(Obs { target: now, mode: "step", consulted, r: R::Ok(verified(c.materialized_state())) });
                }
                Ok(Ok(_)) => break,
            }
        }
    }
    // backward seeks from the highest target that verified
    if let Some(top) = best_ok {
        if let Ok(mut c) = cursor_for(wl, max_t + 1) {
            if matches!(catch(|| c.seek_to(WorldlineTick::from_raw(top), store, &wl.base)), Ok(Ok(()))) {
                for &t in targets.iter().rev() {
                    if t >= top {
                        continue;
                    }
                    let before = store.served();
                    let r = catch(|| c.seek_to(WorldlineTick::from_raw(t), store, &wl.base));
                    ctx.count("time.verifications", 1);
                    let consulted = store.served() > before;
                    match r {
                        Err(p) => {
                            out.push(Obs { target: t, mode: "back", consulted, r: R::Panic(p) });
                            break;
                        }
                        Ok(Err(e)) => {
                            // the cursor is undefined after an error: stop using it
                            out.push(Obs { target: t, mode: "back", consulted, r: R::Err(format!("{e:?}")) });
                            break;
                        }
                        Ok(Ok(())) => out.push(Obs { target: t, mode: "back", consulted, r: R::Ok(verified(c.materialized_state())) }),
                    }
                }
            }
        }
    }
    out
}

/// Replay every target through the real service API.
pub fn service_sweep(svc: &ProvenanceService, id: warp_core::WorldlineId, base: &WorldlineState, targets: &[u64], mode: &'static str, consulted_above: Option<u64>, ctx: &mut RunCtx) -> Vec<Obs> {
    let mut out = Vec::new();
    for &t in targets {
        let r = catch(|| svc.replay_worldline_state_at(id, base, WorldlineTick::from_raw(t)));
        ctx.count("time.verifications", 1);
        let r = match r {
            Err(p) => R::Panic(p),
            Ok(Err(e)) => R::Err(format!("{e:?}")),
            Ok(Ok(s)) => R::Ok(verified(&s)),
        };
        // a replay to `t` reads entries 0..t: it consults the altered entry at position p iff t > p
        out.push(Obs { target: t, mode, consulted: consulted_above.is_none_or(|p| t > p), r });
    }
    out
}

/// The material a rebuilt store is fed with: registration states and the append sequence.
pub struct Feed {
    pub bases: BTreeMap<u8, WorldlineState>,
    pub seq: Vec<(u8, ProvenanceEntry)>,
}

/// Original global append order: by commit cycle, then worldline, then tick.
pub fn honest_feed(hist: &Hist) -> Feed {
    let mut seq: Vec<(u8, ProvenanceEntry)> = Vec::new();
    for wl in &hist.wls {
        for e in &wl.entries {
            seq.push((wl.idx, e.clone()));
        }
    }
    seq.sort_by_key(|(i, e)| (e.commit_global_tick.as_u64(), *i, e.worldline_tick.as_u64()));
    Feed { bases: hist.wls.iter().map(|w| (w.idx, w.base.clone())).collect(), seq }
}

pub struct Rebuilt {
    pub svc: ProvenanceService,
    /// first append that was refused: (index in seq, error)
    pub refused: Option<(usize, String)>,
    pub panic: Option<String>,
}

/// register_worldline + append_local_commit / append_recorded_event for every entry in order.
pub fn rebuild(feed: &Feed) -> Result<Rebuilt, String> {
    let mut svc = ProvenanceService::new();
    for (idx, base) in &feed.bases {
        svc.register_worldline(wl_id(*idx), base).map_err(|e| format!("register: {e:?}"))?;
    }
    for (i, (_, e)) in feed.seq.iter().enumerate() {
        let r = catch(|| if matches!(e.event_kind, ProvenanceEventKind::LocalCommit) { svc.append_local_commit(e.clone()) } else { svc.append_recorded_event(e.clone()) });
        match r {
            Err(p) => return Ok(Rebuilt { svc, refused: None, panic: Some(p) }),
            Ok(Err(err)) => return Ok(Rebuilt { svc, refused: Some((i, format!("{err:?}"))), panic: None }),
            Ok(Ok(())) => {}
        }
    }
    Ok(Rebuilt { svc, refused: None, panic: None })
}

/// Everything a rebuilt (accepted) store is asked to verify: replay of every target, the honest
/// checkpoints, replay again, the fork and the honest BTR.
/// `focus` = (worldline, position) of the altered material when the tamper has one: only replays of that
/// worldline that read that position (any position when `None`) count as having consulted it.
pub fn verify_rebuilt(hist: &Hist, svc: &ProvenanceService, focus: Option<(u8, Option<u64>)>, ctx: &mut RunCtx) -> Judged {
    let above = |idx: u8| -> Option<u64> {
        match focus {
            None => None,
            Some((w, p)) if w == idx => p,
            Some(_) => Some(u64::MAX),
        }
    };
    let mut j = Judged::default();
    let mut svc = svc.clone();
    for wl in &hist.wls {
        let n = svc.len(wl.id).unwrap_or(0).max(wl.len());
        let targets: Vec<u64> = targets_for(n, n);
        j.absorb(service_sweep(&svc, wl.id, &wl.base, &targets, "replay", above(wl.idx), ctx), &wl.vref);
    }
    let mut any_cp = false;
    for wl in &hist.wls {
        for cp in &wl.checkpoints {
            match catch(|| svc.add_checkpoint(wl.id, cp.clone())) {
                Err(p) => j.panics.push((cp.checkpoint.worldline_tick.as_u64(), "add_checkpoint", p)),
                Ok(Err(e)) => j.rejected.push((cp.checkpoint.worldline_tick.as_u64(), "add_checkpoint", format!("{e:?}"))),
                Ok(Ok(())) => any_cp = true,
            }
        }
    }
    if any_cp {
        for wl in &hist.wls {
            if wl.checkpoints.is_empty() {
                continue;
            }
            let n = svc.len(wl.id).unwrap_or(0).max(wl.len());
            j.absorb(service_sweep(&svc, wl.id, &wl.base, &targets_for(n, n), "replay_cp", above(wl.idx), ctx), &wl.vref);
        }
    }
    if let Some((idx, ft)) = hist.fork {
        if let Some(wl) = hist.wls.iter().find(|w| w.idx == idx) {
            let new_id = wl_id(40 + idx);
            match catch(|| svc.fork(wl.id, WorldlineTick::from_raw(ft), new_id)) {
                Err(p) => j.panics.push((ft, "fork", p)),
                Ok(Err(e)) => j.rejected.push((ft, "fork", format!("{e:?}"))),
                Ok(Ok(())) => {
                    let targets: Vec<u64> = (0..=ft + 1).collect();
                    j.absorb(service_sweep(&svc, new_id, &wl.base, &targets, "fork", above(wl.idx), ctx), &wl.vref);
                }
            }
        }
    }
    if let Some((_, btr)) = &hist.btr {
        match catch(|| svc.validate_btr(btr)) {
            Err(p) => j.panics.push((0, "validate_btr", p)),
            Ok(Err(e)) => j.rejected.push((0, "validate_btr", format!("{e:?}"))),
            Ok(Ok(())) => {}
        }
        ctx.count("time.verifications", 1);
    }
    j
}

/// Add one (possibly altered) checkpoint to a fresh copy of the honest store and replay everything.
pub fn verify_added_checkpoint(hist: &Hist, wl: &WlHist, cp: &ReplayCheckpoint, ctx: &mut RunCtx) -> (bool, Judged) {
    let mut j = Judged::default();
    let mut svc = hist.plain.clone();
    for other in &wl.checkpoints {
        if other.checkpoint.worldline_tick != cp.checkpoint.worldline_tick {
            let _ = svc.add_checkpoint(wl.id, other.clone());
        }
    }
    ctx.count("time.verifications", 1);
    match catch(|| svc.add_checkpoint(wl.id, cp.clone())) {
        Err(p) => {
            j.panics.push((cp.checkpoint.worldline_tick.as_u64(), "add_checkpoint", p));
            (false, j)
        }
        Ok(Err(e)) => {
            j.rejected.push((cp.checkpoint.worldline_tick.as_u64(), "add_checkpoint", format!("{e:?}")));
            (false, j)
        }
        Ok(Ok(())) => {
            let targets = targets_for(wl.len(), cp.checkpoint.worldline_tick.as_u64());
            j.absorb(service_sweep(&svc, wl.id, &wl.base, &targets, "replay_cp", None, ctx), &wl.vref);
            (true, j)
        }
    }
}
