//! `TamperStore<P>`: a simulator-owned `ProvenanceStore` that wraps the real store and answers with
//! altered material for chosen coordinates. It is the byzantine retained-history party of C05.

use std::collections::BTreeMap;
use std::sync::atomic::{AtomicU64, Ordering};

use warp_core::{CheckpointRef, HistoryError, ProvenanceEntry, ProvenanceRef, ProvenanceStore, ReplayCheckpoint, WarpId, WorldlineId, WorldlineTick};

pub struct TamperStore<'a, P: ProvenanceStore> {
    inner: &'a P,
    /// entry overrides by (worldline, tick)
    pub entries: BTreeMap<(WorldlineId, u64), ProvenanceEntry>,
    /// reported history length (truncation)
    pub len: BTreeMap<WorldlineId, u64>,
    pub boundary: BTreeMap<WorldlineId, [u8; 32]>,
    pub u0: BTreeMap<WorldlineId, WarpId>,
    /// complete replacement of a worldline's checkpoint list (sorted by the claimed tick)
    pub checkpoints: BTreeMap<WorldlineId, Vec<ReplayCheckpoint>>,
    /// claimed tick of the altered checkpoint inside `checkpoints` (for the served counter)
    pub tampered_cp_tick: Option<u64>,
    /// how many times altered material was handed to the verifier
    served: AtomicU64,
}

impl<'a, P: ProvenanceStore> TamperStore<'a, P> {
    pub fn new(inner: &'a P) -> Self {
        TamperStore { inner, entries: BTreeMap::new(), len: BTreeMap::new(), boundary: BTreeMap::new(), u0: BTreeMap::new(), checkpoints: BTreeMap::new(), tampered_cp_tick: None, served: AtomicU64::new(0) }
    }
    pub fn served(&self) -> u64 {
        self.served.load(Ordering::Relaxed)
    }
    fn hit(&self) {
        self.served.fetch_add(1, Ordering::Relaxed);
    }
    fn cp_before(&self, w: WorldlineId, tick: WorldlineTick) -> Option<Option<&ReplayCheckpoint>> {
        let list = self.checkpoints.get(&w)?;
        Some(list.iter().filter(|c| c.checkpoint.worldline_tick < tick).max_by_key(|c| c.checkpoint.worldline_tick))
    }
}

impl<P: ProvenanceStore> ProvenanceStore for TamperStore<'_, P> {
    fn u0(&self, w: WorldlineId) -> Result<WarpId, HistoryError> {
        if let Some(u) = self.u0.get(&w) {
            self.hit();
            return Ok(*u);
        }
        self.inner.u0(w)
    }

    fn initial_boundary_hash(&self, w: WorldlineId) -> Result<[u8; 32], HistoryError> {
        if let Some(b) = self.boundary.get(&w) {
            self.hit();
            return Ok(*b);
        }
        self.inner.initial_boundary_hash(w)
    }

    fn len(&self, w: WorldlineId) -> Result<u64, HistoryError> {
        if let Some(n) = self.len.get(&w) {
            self.hit();
            return Ok(*n);
        }
        self.inner.len(w)
    }

    fn entry(&self, w: WorldlineId, tick: WorldlineTick) -> Result<ProvenanceEntry, HistoryError> {
        if let Some(n) = self.len.get(&w) {
            if tick.as_u64() >= *n {
                self.hit();
                return Err(HistoryError::HistoryUnavailable { tick });
            }
        }
        if let Some(e) = self.entries.get(&(w, tick.as_u64())) {
            self.hit();
            return Ok(e.clone());
        }
        self.inner.entry(w, tick)
    }

    fn parents(&self, w: WorldlineId, tick: WorldlineTick) -> Result<Vec<ProvenanceRef>, HistoryError> {
        Ok(self.entry(w, tick)?.parents)
    }

    fn append_local_commit(&mut self, entry: ProvenanceEntry) -> Result<(), HistoryError> {
        // read-only seam: the wrapped store is never written through the wrapper
        Err(HistoryError::WorldlineNotFound(entry.worldline_id))
    }

    fn append_recorded_event(&mut self, entry: ProvenanceEntry) -> Result<(), HistoryError> {
        Err(HistoryError::WorldlineNotFound(entry.worldline_id))
    }

    fn checkpoint_before(&self, w: WorldlineId, tick: WorldlineTick) -> Option<CheckpointRef> {
        match self.cp_before(w, tick) {
            Some(found) => {
                if found.is_some_and(|c| Some(c.checkpoint.worldline_tick.as_u64()) == self.tampered_cp_tick) {
                    self.hit();
                }
                found.map(|c| c.checkpoint)
            }
            None => self.inner.checkpoint_before(w, tick),
        }
    }

    fn checkpoint_state_before(&self, w: WorldlineId, tick: WorldlineTick) -> Option<ReplayCheckpoint> {
        match self.cp_before(w, tick) {
            Some(found) => {
                if found.is_some_and(|c| Some(c.checkpoint.worldline_tick.as_u64()) == self.tampered_cp_tick) {
                    self.hit();
                }
                found.cloned()
            }
            None => self.inner.checkpoint_state_before(w, tick),
        }
    }
}
