//! C10 — what was acknowledged survives any crash; what was not is invisible.
//!
//! Sim: a client issues Submit (WAL-acknowledged), Stage, Tick and Restart ops against a real
//! `TrustedRuntimeHost` with a real `FilesystemWalStore` on tmpfs. Faults: process death at any
//! WAL I/O point (hook H5) with a torn in-flight append / leftover temp file / undone rename,
//! including death during recovery itself; the four `FilesystemWalFaultTarget`s plus a blocked
//! ledger write; idle sessions; a store-level manifest-publish session. A second, hook-free mode
//! cuts the final segment at sampled (thorough: all) byte lengths combined with every ledger
//! version that can coexist with the prefix.
//!
//! Oracle: refinement against a crash-free twin. `durable(I)` is decided by the harness's own
//! record parser; the recovered host must equal, on an explicit list of observables, a live host
//! in a fresh directory that executed exactly the durable ops.

pub mod disk;
mod sweep;
pub mod world;

use std::cell::RefCell;
use std::collections::BTreeSet;
use std::panic::{catch_unwind, resume_unwind, AssertUnwindSafe};
use std::path::{Path, PathBuf};
use std::rc::Rc;

use serde::{Deserialize, Serialize};
use warp_core::causal_wal::{
    validate_filesystem_manifest, FilesystemWalFaultPlan, FilesystemWalFaultTarget, FilesystemWalStore, Lsn, WalManifest,
    WalSegmentId, WalStorePort,
};
use warp_core::{Hash, TrustedRuntimeHost};

use crate::kernel::{Outcome, PropertySpec, Rng, RunCtx, Scenario, Tier};
use crate::world::prog::Prog;
use crate::world::rules::callbacks;

use disk::{CommitInfo, Tree};
use world::{Obs, ObsErr};

pub const SPEC: PropertySpec = PropertySpec {
    id: "C10",
    level: "fault_enumeration",
    rule: "scenario = generated interpreter programs + op history (submit/stage/tick/restart/manifest session) + fault plan (crash at io-point k with torn class, crashes during reopen, store faults) or a prefix sweep (segment cut x coexisting ledger version); non-trivial = at least one fault fired on a log with >= 1 committed transaction; distinct = hash of scenario",
    quick_runs: 3_000,
    thorough_runs: 30_000,
    real_components: &[
        "warp_core::TrustedRuntimeHost / TrustedRuntimeApp (submit_intent_with_runtime_wal_ack, admit_installed_contract_submission, tick_once, enable_runtime_wal, recover_read_only)",
        "warp_core::causal_wal::FilesystemWalStore on tmpfs (segments, writer-epoch ledger, manifest)",
        "recover_wal_segment_bytes, validate_filesystem_manifest",
        "Engine + SchedulerCoordinator + ProvenanceService (runtime ingress path)",
    ],
    stub_components: &["application contract = data-driven interpreter rule (programs are generated data)"],
    assumptions: &[
        "crash model: synced bytes are durable; the unsynced tail of a segment survives as an arbitrary prefix (no page reordering); temp+rename is atomic, an un-synced rename may be undone",
        "single worldline, single writer head (the filesystem store refuses multi-head tick batches by design)",
        "staging (inbox) and idle scheduler passes are volatile by design: the twin applies them only together with the durable tick that consumed them",
    ],
    fault_kinds: &[
        "fault.crash.seg.append.begin",
        "fault.crash.seg.append.written",
        "fault.crash.seg.append.synced",
        "fault.crash.rewrite.removed",
        "fault.crash.rewrite.created",
        "fault.crash.rewrite.synced",
        "fault.crash.rewrite.renamed",
        "fault.crash.ledger.tmp.synced",
        "fault.crash.ledger.renamed",
        "fault.crash.manifest.tmp.synced",
        "fault.crash.manifest.renamed",
        "fault.crash_during_recovery",
        "fault.crash_inside_rewrite",
        "fault.torn.zero",
        "fault.torn.full",
        "fault.torn.inside",
        "fault.torn.header",
        "fault.torn.digest",
        "fault.torn.drop_unsynced",
        "fault.rename_undone",
        "fault.store.append_frame",
        "fault.store.flush_commit",
        "fault.store.commit_marker_synced",
        "fault.store.publish_manifest",
        "fault.store.ledger_blocked",
        "fault.idle_session",
        "fault.prefix_cut",
    ],
};

pub const MAX_CRASHES: u32 = 3;

#[derive(Clone, Debug, Serialize, Deserialize, PartialEq, Eq)]
pub struct CrashPoint {
    /// Ordinal of the io point within the operation (points inside a rewrite window are not
    /// counted in avoidance mode).
    pub k: u32,
    /// 0 zero, 1 full, 2 inside, 3 header, 4 digest, 5 drop all unsynced bytes.
    pub torn: u8,
    pub frac: u16,
    /// A completed but not yet directory-synced rename is kept (true) or undone (false).
    pub keep_rename: bool,
}

#[derive(Clone, Debug, Serialize, Deserialize, PartialEq, Eq)]
pub enum Fault {
    Crash { at: CrashPoint, reopen: Vec<CrashPoint> },
    /// 0..=3 = the four `FilesystemWalFaultTarget`s, 4 = ledger temp path blocked.
    Store { target: u8 },
}

#[derive(Clone, Debug, Serialize, Deserialize, PartialEq, Eq)]
pub enum Op {
    Submit(usize),
    Stage(usize),
    Tick,
    Restart { reopen: Vec<CrashPoint> },
    /// Store-level session between two host sessions: open the store, take a writer epoch,
    /// publish a manifest (optionally with the PublishManifest fault or a crash), close.
    Manifest { fault: bool, crash: Option<CrashPoint> },
}

#[derive(Clone, Debug, Serialize, Deserialize, PartialEq, Eq)]
pub struct OpEntry {
    pub op: Op,
    pub fault: Option<Fault>,
}

#[derive(Clone, Debug, Serialize, Deserialize, PartialEq, Eq)]
pub enum Mode {
    History,
    /// Hook-free: crash-free workload, then segment prefixes x coexisting ledger versions.
    Sweep { cuts: Vec<u32>, all_bytes: bool },
}

#[derive(Clone, Debug, Serialize, Deserialize)]
pub struct C10 {
    pub avoid: bool,
    pub mode: Mode,
    pub progs: Vec<Prog>,
    /// Programs used to make a session non-idle in avoidance mode.
    pub fillers: Vec<Prog>,
    pub ops: Vec<OpEntry>,
    /// Compare the live host with the twin after every durable tick (not only at recoveries).
    pub deep: bool,
}

// ---------------------------------------------------------------------------------------------
// Generation
// ---------------------------------------------------------------------------------------------

fn gen_crash_point(rng: &mut Rng, span: u32) -> CrashPoint {
    CrashPoint {
        k: if rng.chance(1, 8) { rng.below(u64::from(span) * 3 + 1) as u32 } else { rng.below(u64::from(span)) as u32 },
        torn: rng.weighted(&[2, 2, 3, 2, 2, 1]) as u8,
        frac: rng.below(65_536) as u16,
        keep_rename: rng.chance(1, 2),
    }
}

fn gen_reopen_crashes(rng: &mut Rng, budget: &mut u32, avoid: bool) -> Vec<CrashPoint> {
    let mut v = Vec::new();
    while *budget > 0 && rng.chance(1, 3) {
        // Reopen: (rewrite: removed, created, 2 per record, synced) + ledger close (2) + ledger open (2).
        let span = if avoid { 3 } else { *rng.pick(&[4u32, 8, 16, 40]) };
        v.push(gen_crash_point(rng, span));
        *budget -= 1;
    }
    v
}

impl Scenario for C10 {
    fn generate(rng: &mut Rng, tier: Tier, avoid: bool) -> Self {
        // Both C10 defects that had an avoidance mode (idle-session LSN gap, crash inside the recovery
        // rewrite) were repaired by `fix:` commits, so no run steers around them any more.
        let _ = avoid;
        let avoid = false;
        let sweep_den = if tier == Tier::Thorough { 25 } else { 12 };
        if rng.chance(1, sweep_den) {
            return sweep::generate(rng, tier, avoid);
        }
        let n_progs = rng.urange(2, 7);
        let progs: Vec<Prog> = (0..n_progs).map(|i| world::gen_prog(rng, 1 + i as u32)).collect();
        let fillers: Vec<Prog> = (0..8).map(|i| world::gen_prog(rng, 0x4000_0000 + i as u32)).collect();
        let n_ops = rng.urange(4, if tier == Tier::Thorough { 28 } else { 20 });
        let mut budget = rng.urange(0, MAX_CRASHES as usize) as u32;
        let store_fault_pct = *rng.pick(&[0u64, 5, 15, 30]);
        let crash_pct = *rng.pick(&[5u64, 15, 30]);
        let restart_w = *rng.pick(&[0u32, 1, 2, 4]);
        let dup_w = *rng.pick(&[0u32, 1, 2]);
        let idle_tick_w = *rng.pick(&[0u32, 0, 1]);
        let manifest_w = if avoid { 0 } else { *rng.pick(&[0u32, 0, 1]) };

        // Generation-time model (only to keep the history meaningful; execution re-derives everything).
        let mut submitted: Vec<usize> = Vec::new();
        let mut staged: Vec<usize> = Vec::new();
        let mut decided: Vec<usize> = Vec::new();
        let mut next = 0usize;
        let mut ops = Vec::new();
        for _ in 0..n_ops {
            let stageable: Vec<usize> = submitted.iter().copied().filter(|p| !staged.contains(p) && !decided.contains(p)).collect();
            let w = [
                if next < n_progs { 6 } else { 0 },
                if submitted.is_empty() { 0 } else { dup_w },
                if stageable.is_empty() { 0 } else { 6 },
                if staged.is_empty() { idle_tick_w } else { 6 },
                restart_w,
                manifest_w,
                if submitted.is_empty() { 0 } else { 1 }, // stage of something arbitrary (duplicate / decided / unknown)
            ];
            if w.iter().all(|x| *x == 0) {
                break;
            }
            let choice = rng.weighted(&w);
            let mut entry = match choice {
                0 => {
                    submitted.push(next);
                    next += 1;
                    OpEntry { op: Op::Submit(next - 1), fault: None }
                }
                1 => OpEntry { op: Op::Submit(*rng.pick(&submitted)), fault: None },
                2 => {
                    let p = *rng.pick(&stageable);
                    staged.push(p);
                    OpEntry { op: Op::Stage(p), fault: None }
                }
                3 => {
                    decided.append(&mut staged);
                    OpEntry { op: Op::Tick, fault: None }
                }
                4 => {
                    staged.clear();
                    let reopen = gen_reopen_crashes(rng, &mut budget, avoid);
                    OpEntry { op: Op::Restart { reopen }, fault: None }
                }
                5 => {
                    staged.clear();
                    let crash = if budget > 0 && rng.chance(1, 3) {
                        budget -= 1;
                        Some(gen_crash_point(rng, 6))
                    } else {
                        None
                    };
                    OpEntry { op: Op::Manifest { fault: rng.chance(1, 3), crash }, fault: None }
                }
                _ => OpEntry { op: Op::Stage(rng.usize_below(n_progs)), fault: None },
            };
            let writes = matches!(choice, 0 | 3);
            if writes {
                if budget > 0 && rng.below(100) < crash_pct {
                    budget -= 1;
                    // A transaction is 3 frames + commit: 2 points per append, 1 sync, 2 ledger points.
                    let at = gen_crash_point(rng, 11);
                    let reopen = gen_reopen_crashes(rng, &mut budget, avoid);
                    entry.fault = Some(Fault::Crash { at, reopen });
                    staged.clear();
                    // Whether the op survived is decided at execution; keep the generation model optimistic.
                } else if rng.below(100) < store_fault_pct {
                    entry.fault = Some(Fault::Store { target: rng.below(5) as u8 });
                }
            }
            ops.push(entry);
        }
        C10 { avoid, mode: Mode::History, progs, fillers, ops, deep: rng.chance(1, 3) }
    }

    fn execute(&self, ctx: &mut RunCtx) -> Outcome {
        match &self.mode {
            Mode::History => match Run::start(self, ctx) {
                Ok(mut run) => {
                    let r = run.history();
                    run.finish();
                    match r {
                        Ok(()) => Outcome::Ok,
                        Err(o) => o,
                    }
                }
                Err(o) => o,
            },
            Mode::Sweep { cuts, all_bytes } => sweep::execute(self, cuts, *all_bytes, ctx),
        }
    }

    fn shrink_candidates(&self) -> Vec<Self> {
        let mut out = Vec::new();
        if let Mode::Sweep { cuts, all_bytes } = &self.mode {
            for i in 0..cuts.len() {
                let mut c = self.clone();
                let mut v = cuts.clone();
                v.remove(i);
                c.mode = Mode::Sweep { cuts: v, all_bytes: *all_bytes };
                out.push(c);
            }
            if *all_bytes {
                let mut c = self.clone();
                c.mode = Mode::Sweep { cuts: cuts.clone(), all_bytes: false };
                out.push(c);
            }
        }
        // Drop ops (from the end first: later ops are rarely needed).
        for i in (0..self.ops.len()).rev() {
            let mut c = self.clone();
            c.ops.remove(i);
            out.push(c);
        }
        // Drop or simplify faults.
        for i in 0..self.ops.len() {
            if self.ops[i].fault.is_some() {
                let mut c = self.clone();
                c.ops[i].fault = None;
                out.push(c);
            }
            if let Some(Fault::Crash { at, reopen }) = &self.ops[i].fault {
                for j in 0..reopen.len() {
                    let mut c = self.clone();
                    let mut r = reopen.clone();
                    r.remove(j);
                    c.ops[i].fault = Some(Fault::Crash { at: at.clone(), reopen: r });
                    out.push(c);
                }
                for simpler in simpler_points(at) {
                    let mut c = self.clone();
                    c.ops[i].fault = Some(Fault::Crash { at: simpler, reopen: reopen.clone() });
                    out.push(c);
                }
                for (j, rp) in reopen.iter().enumerate() {
                    for simpler in simpler_points(rp) {
                        let mut c = self.clone();
                        let mut r = reopen.clone();
                        r[j] = simpler;
                        c.ops[i].fault = Some(Fault::Crash { at: at.clone(), reopen: r });
                        out.push(c);
                    }
                }
            }
            if let Op::Restart { reopen } = &self.ops[i].op {
                for j in 0..reopen.len() {
                    let mut c = self.clone();
                    let mut r = reopen.clone();
                    r.remove(j);
                    c.ops[i].op = Op::Restart { reopen: r };
                    out.push(c);
                }
                for (j, rp) in reopen.iter().enumerate() {
                    for simpler in simpler_points(rp) {
                        let mut c = self.clone();
                        let mut r = reopen.clone();
                        r[j] = simpler;
                        c.ops[i].op = Op::Restart { reopen: r };
                        out.push(c);
                    }
                }
            }
            if let Op::Manifest { fault, crash } = &self.ops[i].op {
                if crash.is_some() || *fault {
                    let mut c = self.clone();
                    c.ops[i].op = Op::Manifest { fault: false, crash: None };
                    out.push(c);
                }
            }
        }
        // Drop unused trailing programs and fillers.
        if let Some(last) = self.progs.len().checked_sub(1) {
            let used = self.ops.iter().any(|e| matches!(&e.op, Op::Submit(p) | Op::Stage(p) if *p == last));
            if !used && last > 0 {
                let mut c = self.clone();
                c.progs.pop();
                out.push(c);
            }
        }
        if !self.fillers.is_empty() {
            let mut c = self.clone();
            c.fillers.pop();
            out.push(c);
        }
        // Simplify programs.
        for i in 0..self.progs.len() {
            if self.progs[i].steps.len() > 1 {
                let mut c = self.clone();
                c.progs[i].steps.truncate(1);
                out.push(c);
            }
        }
        if self.deep {
            let mut c = self.clone();
            c.deep = false;
            out.push(c);
        }
        out
    }
}

fn simpler_points(p: &CrashPoint) -> Vec<CrashPoint> {
    let mut v = Vec::new();
    if p.k > 0 {
        v.push(CrashPoint { k: p.k / 2, ..p.clone() });
        v.push(CrashPoint { k: p.k - 1, ..p.clone() });
    }
    if p.torn != 1 {
        v.push(CrashPoint { torn: 1, ..p.clone() });
    }
    if p.frac != 0 {
        v.push(CrashPoint { frac: 0, ..p.clone() });
    }
    if !p.keep_rename {
        v.push(CrashPoint { keep_rename: true, ..p.clone() });
    }
    v
}

// ---------------------------------------------------------------------------------------------
// Crash images (hook H5 observer)
// ---------------------------------------------------------------------------------------------

/// Private unwinding payload = process death.
struct CrashSignal;

/// Temp file of an atomic recovery rewrite (ignored by segment scans: not a segment name).
const REWRITE_TMP_REL: &str = "segments/.segment-rewrite.tmp";

const TORN_NAMES: [&str; 6] = ["zero", "full", "inside", "header", "digest", "drop_unsynced"];

#[derive(Clone, Debug)]
pub struct Fired {
    pub kind: String,
    pub torn: Option<&'static str>,
    pub in_rewrite: bool,
    pub rename_undone: bool,
}

#[derive(Default)]
struct Tracker {
    root: PathBuf,
    /// Durable length per segment file (relative path).
    synced: std::collections::BTreeMap<String, u64>,
    /// Start offset of the most recent append (valid at seg.append.* points).
    last_append: Option<(String, u64)>,
    in_rewrite: bool,
    /// Content of the rename target before the most recent temp write (None = absent).
    prev_target: Option<Option<Vec<u8>>>,
    /// Content of the live segment when a recovery rewrite began (for an undone rewrite rename).
    prev_segment: Option<Vec<u8>>,
    count: u32,
    target: Option<CrashPoint>,
    avoid: bool,
    image_root: PathBuf,
    fired: Option<Fired>,
    kinds: Vec<String>,
    saw_rewrite: bool,
}

impl Tracker {
    fn resync(&mut self) {
        self.synced.clear();
        for (rel, bytes) in disk::read_tree(&self.root) {
            if disk::is_segment(&rel) {
                self.synced.insert(rel, bytes.len() as u64);
            }
        }
        self.last_append = None;
        self.in_rewrite = false;
        self.prev_target = None;
        self.prev_segment = None;
    }

    fn rel(&self, p: &Path) -> String {
        p.strip_prefix(&self.root).map(|r| r.to_string_lossy().replace('\\', "/")).unwrap_or_else(|_| p.to_string_lossy().into_owned())
    }

    /// Returns true when the process must die now (image already written).
    fn on_point(&mut self, kind: &str, path: &Path) -> bool {
        self.kinds.push(kind.to_owned());
        if !kind.starts_with("rewrite.") {
            self.in_rewrite = false;
        }
        match kind {
            "seg.append.begin" => {
                let rel = self.rel(path);
                self.last_append = Some((rel, disk::file_len(path)));
            }
            "seg.append.synced" => {
                let rel = self.rel(path);
                self.synced.insert(rel, disk::file_len(path));
            }
            "rewrite.removed" => {
                self.in_rewrite = true;
                self.saw_rewrite = true;
                let root = self.root.clone();
                self.synced.retain(|rel, _| root.join(rel).exists());
            }
            "rewrite.created" => {
                // Protocol-agnostic: a rewrite that recreates the segment in place leaves it empty here
                // (nothing durable any more); one that builds a replacement beside it leaves it intact.
                self.in_rewrite = true;
                self.saw_rewrite = true;
                let seg = self.root.join(disk::SEGMENT_REL);
                let len = disk::file_len(&seg);
                let e = self.synced.entry(disk::SEGMENT_REL.to_owned()).or_insert(0);
                *e = (*e).min(len);
                self.prev_segment = std::fs::read(&seg).ok();
            }
            "rewrite.synced" => {
                self.in_rewrite = true;
                self.saw_rewrite = true;
                if !self.root.join(REWRITE_TMP_REL).exists() {
                    // in-place protocol: the rewritten segment itself was synced
                    let len = disk::file_len(&self.root.join(disk::SEGMENT_REL));
                    self.synced.insert(disk::SEGMENT_REL.to_owned(), len);
                }
            }
            "rewrite.renamed" => {
                // a synced replacement was renamed over the live segment
                self.in_rewrite = true;
                self.saw_rewrite = true;
                let len = disk::file_len(&self.root.join(disk::SEGMENT_REL));
                self.synced.insert(disk::SEGMENT_REL.to_owned(), len);
            }
            "ledger.tmp.synced" => {
                self.prev_target = Some(std::fs::read(self.root.join(disk::LEDGER_REL)).ok());
            }
            "manifest.tmp.synced" => {
                self.prev_target = Some(std::fs::read(self.root.join(disk::MANIFEST_REL)).ok());
            }
            _ => {}
        }
        // (Crashes inside the recovery rewrite window used to be avoided in avoidance mode while the
        // rewrite lost committed history; repaired by a `fix:` commit, so they are always eligible.)
        if self.avoid && kind == "ledger.renamed" {
            // Avoidance: dying right after a fresh, still commit-less epoch became the ledger's
            // active epoch would create an idle session (DESIGN §9 item 6 shape).
            let ledger = std::fs::read(self.root.join(disk::LEDGER_REL)).unwrap_or_default();
            let fresh = disk::ledger_info(&ledger).and_then(|l| l.active).is_some_and(|a| a.final_lsn.is_none());
            if fresh {
                return false;
            }
        }
        let hit = matches!(&self.target, Some(t) if t.k == self.count);
        self.count += 1;
        if !hit {
            return false;
        }
        let Some(cp) = self.target.take() else { return false };
        self.write_image(kind, &cp);
        true
    }

    fn write_image(&mut self, kind: &str, cp: &CrashPoint) {
        let mut tree: Tree = disk::read_tree(&self.root);
        let mut torn_name = None;
        // Segment files: synced prefix + a prefix of the unsynced tail.
        let rels: Vec<String> = tree.keys().filter(|r| disk::is_segment(r)).cloned().collect();
        for rel in rels {
            let len = tree.get(&rel).map_or(0, Vec::len) as u64;
            let synced = self.synced.get(&rel).copied().unwrap_or(0).min(len);
            if synced == len {
                continue;
            }
            let inflight = match (&self.last_append, kind) {
                (Some((r, start)), "seg.append.written") if *r == rel && *start >= synced && *start < len => Some(*start),
                _ => None,
            };
            let frac = u64::from(cp.frac);
            let cut = match (cp.torn, inflight) {
                (5, _) => synced,
                (1, _) => len,
                (0, Some(start)) => start,
                (2, Some(start)) => {
                    let rl = len - start;
                    if rl > 2 {
                        start + 1 + frac % (rl - 1)
                    } else {
                        start
                    }
                }
                (3, Some(start)) => (start + 1 + frac % 16).min(len - 1),
                (4, Some(start)) => (len - 32 + frac % 32).max(start),
                // No record in flight (begin point, ledger point, ...): any prefix of the unsynced tail.
                (0, None) => len,
                (_, None) => synced + frac % (len - synced + 1),
                _ => len,
            };
            torn_name = Some(TORN_NAMES[usize::from(cp.torn.min(5))]);
            if let Some(b) = tree.get_mut(&rel) {
                b.truncate(cut as usize);
            }
        }
        // Temp + rename.
        let mut rename_undone = false;
        let (target_rel, tmp_rel) = if kind.starts_with("ledger.") {
            (disk::LEDGER_REL, disk::LEDGER_TMP_REL)
        } else {
            (disk::MANIFEST_REL, disk::MANIFEST_TMP_REL)
        };
        if kind.ends_with(".tmp.synced") {
            // The crash may have happened anywhere during the temp write: keep an arbitrary prefix.
            if let Some(b) = tree.get_mut(tmp_rel) {
                let keep = usize::from(cp.frac) % (b.len() + 1);
                if !cp.keep_rename {
                    b.truncate(keep);
                }
            }
        } else if kind == "rewrite.renamed" {
            // The rename is durable only after the directory sync: it may be kept or undone.
            if !cp.keep_rename {
                rename_undone = true;
                let new = tree.remove(disk::SEGMENT_REL).unwrap_or_default();
                if let Some(prev) = self.prev_segment.clone() {
                    tree.insert(disk::SEGMENT_REL.to_owned(), prev);
                }
                tree.insert(REWRITE_TMP_REL.to_owned(), new);
            }
        } else if kind.ends_with(".renamed") && !cp.keep_rename {
            rename_undone = true;
            let new = tree.remove(target_rel).unwrap_or_default();
            if let Some(Some(prev)) = self.prev_target.clone() {
                tree.insert(target_rel.to_owned(), prev);
            }
            tree.insert(tmp_rel.to_owned(), new);
        }
        if let Some(b) = tree.get_mut(disk::LOCK_REL) {
            b.clear();
        }
        let _ = disk::write_tree(&self.image_root, &tree);
        self.fired = Some(Fired { kind: kind.to_owned(), torn: torn_name, in_rewrite: self.in_rewrite, rename_undone });
    }
}

enum Exec<T> {
    Done(T),
    Crashed(Fired),
    Panicked(String),
}

fn panic_text(p: &(dyn std::any::Any + Send)) -> String {
    if let Some(s) = p.downcast_ref::<&str>() {
        (*s).to_owned()
    } else if let Some(s) = p.downcast_ref::<String>() {
        s.clone()
    } else {
        "non-string panic payload".to_owned()
    }
}

/// Run `f` with the io observer installed; an unwinding `CrashSignal` is process death.
fn observed<T>(tracker: &Rc<RefCell<Tracker>>, f: impl FnOnce() -> T) -> Exec<T> {
    let t = Rc::clone(tracker);
    warp_core::verif::install_io_observer(Some(Box::new(move |kind: &str, path: &Path| {
        let die = t.borrow_mut().on_point(kind, path);
        if die {
            resume_unwind(Box::new(CrashSignal));
        }
    })));
    let r = catch_unwind(AssertUnwindSafe(f));
    warp_core::verif::install_io_observer(None);
    match r {
        Ok(v) => Exec::Done(v),
        Err(p) => {
            if p.is::<CrashSignal>() {
                match tracker.borrow_mut().fired.take() {
                    Some(f) => Exec::Crashed(f),
                    None => Exec::Panicked("crash signal without image".to_owned()),
                }
            } else {
                Exec::Panicked(panic_text(&*p))
            }
        }
    }
}

// ---------------------------------------------------------------------------------------------
// Model and run
// ---------------------------------------------------------------------------------------------

#[derive(Clone, Debug, PartialEq, Eq)]
enum TxOp {
    Submit(usize),
    Tick(Vec<usize>),
}

#[derive(Clone, Debug)]
struct Tx {
    digest: disk::H,
    kind: u8,
    op: TxOp,
}

enum Pending {
    Stage(usize, String),
    IdleTick,
}

macro_rules! bail {
    ($class:expr, $($fmt:tt)*) => {
        return Err(Outcome::violation($class, format!($($fmt)*)))
    };
}

type Res<T> = Result<T, Outcome>;

fn harness<T>(r: Result<T, String>, what: &str) -> Res<T> {
    r.map_err(|e| Outcome::violation(format!("harness:{what}"), e))
}

pub(crate) fn obs_of(host: &mut TrustedRuntimeHost, sub_ids: &[Hash], who: &str) -> Res<Obs> {
    obs_of_h(host, sub_ids, who, false)
}

/// `hole`: a commit was written in an epoch whose start LSN skipped one (idle-session shape);
/// read-only recovery of the live log then fails exactly like the next reopen would.
pub(crate) fn obs_of_h(host: &mut TrustedRuntimeHost, sub_ids: &[Hash], who: &str, hole: bool) -> Res<Obs> {
    match world::observe(host, sub_ids) {
        Ok(o) => Ok(o),
        Err(ObsErr::RootMismatch(d)) => Err(Outcome::violation("certificate_root_mismatch", format!("{who}: {d}"))),
        Err(ObsErr::Api(d)) if hole && d.contains("LsnContinuityMismatch") => {
            Err(Outcome::violation("reopen_failed:idle_session_lsn_gap", format!("read-only recovery of the live log ({who}): {d}")))
        }
        Err(ObsErr::Api(d)) => Err(Outcome::violation(format!("observe_failed:{who}"), d)),
    }
}

struct Run<'a> {
    ctx: &'a mut RunCtx,
    sc: &'a C10,
    all_progs: Vec<Prog>,
    base: PathBuf,
    root: PathBuf,
    img_n: u32,
    real: Option<TrustedRuntimeHost>,
    twin: Option<TrustedRuntimeHost>,
    tracker: Rc<RefCell<Tracker>>,
    sub_ids: Vec<Hash>,
    known: BTreeSet<usize>,
    decided: BTreeSet<usize>,
    staged: Vec<usize>,
    committed: Vec<Tx>,
    session_commits: u32,
    /// Transaction kind codes learnt from acknowledged ops (submit, tick).
    kind_codes: [Option<u8>; 2],
    /// The current epoch started above last-committed-LSN + 1 (DESIGN §9 item 6 mechanism).
    epoch_start_gap: bool,
    /// Some epoch so far started with such a gap.
    gap_epoch_seen: bool,
    pending: Vec<Pending>,
    crashes: u32,
    next_filler: usize,
    faults_fired: u32,
    fault_on_nonempty_log: bool,
}

impl<'a> Run<'a> {
    fn start(sc: &'a C10, ctx: &'a mut RunCtx) -> Res<Self> {
        let base = ctx.scratch_dir();
        Self::start_in(sc, ctx, base)
    }

    fn start_in(sc: &'a C10, ctx: &'a mut RunCtx, base: PathBuf) -> Res<Self> {
        let mut all_progs = sc.progs.clone();
        all_progs.extend(sc.fillers.iter().cloned());
        let sub_ids = harness(world::submission_ids(&all_progs), "submission_ids")?;
        let twin = harness(world::open_plain(&base.join("twin")), "twin_open")?;
        let root = base.join("wal0");
        let tracker = Rc::new(RefCell::new(Tracker { avoid: sc.avoid, root: root.clone(), ..Tracker::default() }));
        let mut run = Run {
            ctx,
            sc,
            all_progs,
            base,
            root,
            img_n: 0,
            real: None,
            twin: Some(twin),
            tracker,
            sub_ids,
            known: BTreeSet::new(),
            decided: BTreeSet::new(),
            staged: Vec::new(),
            committed: Vec::new(),
            session_commits: 0,
            kind_codes: [None, None],
            epoch_start_gap: false,
            gap_epoch_seen: false,
            pending: Vec::new(),
            crashes: 0,
            next_filler: sc.progs.len(),
            faults_fired: 0,
            fault_on_nonempty_log: false,
        };
        run.open_real(&[])?;
        Ok(run)
    }

    fn finish(&mut self) {
        self.real = None;
        self.twin = None;
        warp_core::verif::install_io_observer(None);
        self.ctx.count("time.wal_transactions", self.committed.len() as u64);
        self.ctx.count(&format!("reach.cycles_per_run.{}", self.crashes), 1);
        let history: Vec<String> = self.committed.iter().map(|t| format!("{}:{:?}:{}", t.kind, t.op, disk::hex8(&t.digest))).collect();
        self.ctx.trace_str(&history.join(";"));
        if self.faults_fired > 0 && self.fault_on_nonempty_log {
            let sig = serde_json::to_vec(self.sc).unwrap_or_default();
            self.ctx.nontrivial(&sig);
        }
    }

    fn fault_fired(&mut self, key: &str) {
        self.ctx.hit(key);
        self.faults_fired += 1;
        if !self.committed.is_empty() {
            self.fault_on_nonempty_log = true;
        }
    }

    fn next_image_root(&mut self) -> PathBuf {
        self.img_n += 1;
        self.base.join(format!("img{}", self.img_n))
    }

    fn arm(&mut self, target: Option<CrashPoint>) {
        let image_root = self.next_image_root();
        let mut t = self.tracker.borrow_mut();
        t.root = self.root.clone();
        t.count = 0;
        t.target = target;
        t.image_root = image_root;
        t.fired = None;
        t.kinds.clear();
        t.saw_rewrite = false;
    }

    fn trace_kinds(&mut self, what: &str) {
        let (kinds, saw_rewrite) = {
            let t = self.tracker.borrow();
            (t.kinds.join(","), t.saw_rewrite)
        };
        if saw_rewrite {
            self.ctx.hit("reach.recovery_rewrite");
        }
        self.ctx.trace_str(&format!("{what}:{kinds}"));
    }

    /// DESIGN §9 item 6 shape, read from the disk by the harness's own parser: an epoch started
    /// above last-committed-LSN + 1 and frames written since then left a hole in the LSN sequence.
    fn lsn_hole(&self) -> bool {
        if !self.gap_epoch_seen {
            return false;
        }
        let bytes = std::fs::read(self.root.join(disk::SEGMENT_REL)).unwrap_or_default();
        disk::has_lsn_hole(&bytes)
    }

    fn live_commits(&self) -> Vec<CommitInfo> {
        let bytes = std::fs::read(self.root.join(disk::SEGMENT_REL)).unwrap_or_default();
        disk::commits_in(&bytes).0
    }

    fn committed_prefix_ok(&self, commits: &[CommitInfo]) -> bool {
        commits.len() >= self.committed.len() && self.committed.iter().zip(commits).all(|(a, b)| a.digest == b.digest)
    }

    // ---- session management -------------------------------------------------------------

    fn count_crash(&mut self, f: &Fired, during_recovery: bool) {
        self.crashes += 1;
        self.fault_fired(&format!("fault.crash.{}", f.kind));
        if let Some(t) = f.torn {
            self.ctx.hit(&format!("fault.torn.{t}"));
        }
        if f.in_rewrite {
            self.ctx.hit("fault.crash_inside_rewrite");
        }
        if f.rename_undone {
            self.ctx.hit("fault.rename_undone");
        }
        if during_recovery {
            self.ctx.hit("fault.crash_during_recovery");
        }
    }

    /// The process died: adopt the image, decide `durable(I)` with the harness's own parser.
    fn adopt_image(&mut self, fired: &Fired, inflight: Option<TxOp>) -> Res<()> {
        self.real = None;
        self.root = self.tracker.borrow().image_root.clone();
        {
            // Everything inside a crash image is durable by definition.
            let mut t = self.tracker.borrow_mut();
            t.root = self.root.clone();
            t.resync();
        }
        let commits = self.live_commits();
        self.ctx.trace_str(&format!("image:{}:{}", fired.kind, commits.len()));
        if !self.committed_prefix_ok(&commits) {
            let class = if fired.in_rewrite {
                "ack_lost:crash_during_recovery_rewrite".to_owned()
            } else {
                format!("ack_lost:crash_at_{}", fired.kind)
            };
            bail!(
                class,
                "image after crash at {} (torn {:?}) holds {} complete commit records, {} transactions were acknowledged/durable before",
                fired.kind,
                fired.torn,
                commits.len(),
                self.committed.len()
            );
        }
        let extra = &commits[self.committed.len()..];
        match (extra.len(), inflight) {
            (0, _) => {}
            (1, Some(op)) => {
                let c = extra[0].clone();
                let idx = usize::from(matches!(op, TxOp::Tick(_)));
                if let Some(code) = self.kind_codes[idx] {
                    if code != c.tx_kind {
                        bail!("phantom_commit:wrong_kind", "in-flight {op:?} left a commit of kind {}", c.tx_kind);
                    }
                }
                self.ctx.hit("reach.unacked_but_durable");
                self.apply_durable(c, op, None)?;
            }
            (n, op) => bail!("phantom_commit:after_crash", "{n} unexpected commit records after crash, in-flight {op:?}"),
        }
        self.staged.clear();
        self.pending.clear();
        Ok(())
    }

    /// Record a durable transaction in the model and apply it to the twin.
    fn apply_durable(&mut self, c: CommitInfo, op: TxOp, real_ack: Option<String>) -> Res<()> {
        let twin = self.twin.as_mut().ok_or_else(|| Outcome::violation("harness:no_twin", ""))?;
        match &op {
            TxOp::Submit(p) => {
                let env = harness(world::envelope(&self.all_progs[*p]), "envelope")?;
                let h = twin.app().submit_intent_with_runtime_wal_ack(env);
                let h = match h {
                    Ok(h) => h,
                    Err(e) => bail!("harness:twin_submit", "{e:?}"),
                };
                if let Some(ack) = &real_ack {
                    let t = format!("{h:?}");
                    if *ack != t {
                        bail!("ack_mismatch:submit", "real {ack} twin {t}");
                    }
                }
                self.known.insert(*p);
            }
            TxOp::Tick(consumed) => {
                Self::flush_pending(twin, &mut self.pending, &self.sub_ids)?;
                let r = match twin.tick_once() {
                    Ok(r) => r,
                    Err(e) => bail!("harness:twin_tick", "{e:?}"),
                };
                if let Some(ack) = &real_ack {
                    let t = format!("{r:?}");
                    if *ack != t {
                        bail!("ack_mismatch:tick", "real {ack} twin {t}");
                    }
                }
                for p in consumed {
                    self.decided.insert(*p);
                }
                self.staged.retain(|p| !consumed.contains(p));
            }
        }
        self.committed.push(Tx { digest: c.digest, kind: c.tx_kind, op });
        self.session_commits += 1;
        Ok(())
    }

    fn flush_pending(twin: &mut TrustedRuntimeHost, pending: &mut Vec<Pending>, sub_ids: &[Hash]) -> Res<()> {
        for p in pending.drain(..) {
            match p {
                Pending::Stage(i, real_disp) => match twin.admit_installed_contract_submission(sub_ids[i]) {
                    Ok(d) => {
                        let t = format!("{d:?}");
                        if t != real_disp {
                            bail!("ack_mismatch:stage", "real {real_disp} twin {t}");
                        }
                    }
                    Err(e) => bail!("ack_mismatch:stage", "real {real_disp} twin Err {e:?}"),
                },
                Pending::IdleTick => match twin.tick_once() {
                    Ok(r) if r.is_empty() => {}
                    other => bail!("harness:twin_idle_tick", "{other:?}"),
                },
            }
        }
        Ok(())
    }

    fn end_session(&mut self) {
        if self.session_commits == 0 {
            self.ctx.hit("fault.idle_session");
            if !self.committed.is_empty() {
                self.faults_fired += 1;
                self.fault_on_nonempty_log = true;
            }
        }
        self.session_commits = 0;
        self.staged.clear();
        self.pending.clear();
    }

    fn classify_reopen_error(&self, err: &str) -> String {
        if err.contains("LsnContinuityMismatch") && self.lsn_hole() {
            return "reopen_failed:idle_session_lsn_gap".to_owned();
        }
        let short: String = err.chars().filter(|c| c.is_ascii_alphanumeric() || *c == '(' || *c == '_').take(70).collect();
        format!("reopen_failed:{short}")
    }

    /// Build a fresh host from a fresh runtime and reopen `self.root`, optionally dying during
    /// recovery; then check the recovered host against the twin.
    fn open_real(&mut self, reopen: &[CrashPoint]) -> Res<()> {
        let mut points: Vec<Option<CrashPoint>> = Vec::new();
        for cp in reopen {
            points.push(Some(cp.clone()));
        }
        points.push(None);
        let mut i = 0;
        let host = loop {
            let mut target = points.get(i).cloned().flatten();
            i += 1;
            if self.crashes >= MAX_CRASHES || self.committed.is_empty() {
                target = None;
            }
            let last = target.is_none();
            let mut host = harness(world::fresh_host(), "fresh_host")?;
            let cb0 = callbacks();
            self.arm(target);
            let cfg = world::wal_config(&self.root);
            let r = observed(&self.tracker, || host.enable_runtime_wal(cfg));
            self.trace_kinds("open");
            match r {
                Exec::Done(Ok(())) => {
                    if callbacks() != cb0 {
                        bail!("recovery_ran_callback", "rule callbacks moved from {cb0} to {} during enable_runtime_wal", callbacks());
                    }
                    break host;
                }
                Exec::Done(Err(e)) => {
                    let es = format!("{e:?}");
                    bail!(self.classify_reopen_error(&es), "enable_runtime_wal on a crash image / restarted directory failed: {es}");
                }
                Exec::Crashed(f) => {
                    drop(host);
                    self.count_crash(&f, true);
                    self.adopt_image(&f, None)?;
                    self.end_session_after_aborted_open();
                    if last {
                        // cannot happen: no target armed
                        bail!("harness:crash_without_target", "");
                    }
                }
                Exec::Panicked(m) => bail!("panic:reopen", "{m}"),
            }
        };
        self.real = Some(host);
        self.tracker.borrow_mut().root = self.root.clone();
        self.tracker.borrow_mut().resync();
        self.session_commits = 0;
        self.note_epoch_start()?;
        self.check_recovered()?;
        Ok(())
    }

    fn end_session_after_aborted_open(&mut self) {
        // An aborted reopen is a session without commits (whether its epoch was persisted is
        // read back from the ledger at the next successful open).
        self.session_commits = 0;
    }

    /// Read the ledger the host just wrote: does the new epoch start right after the last
    /// committed LSN?
    fn note_epoch_start(&mut self) -> Res<()> {
        let ledger = std::fs::read(self.root.join(disk::LEDGER_REL)).unwrap_or_default();
        let Some(info) = disk::ledger_info(&ledger) else {
            bail!("harness:ledger_unparsable", "ledger after successful open is not parsable by the harness ({} bytes)", ledger.len());
        };
        let Some(active) = info.active else {
            bail!("ledger_without_active_epoch", "host opened but ledger has no active epoch");
        };
        let last = self.live_commits().last().map(|c| c.last_lsn);
        self.epoch_start_gap = match last {
            Some(l) => active.start_lsn != l + 1,
            None => false,
        };
        if self.epoch_start_gap {
            self.gap_epoch_seen = true;
            self.ctx.hit("reach.epoch_start_lsn_gap");
        }
        Ok(())
    }

    /// (2) observational equality with the twin, (4) idempotence on a copy.
    fn check_recovered(&mut self) -> Res<()> {
        let commits = self.live_commits();
        if commits.len() != self.committed.len() || !self.committed_prefix_ok(&commits) {
            bail!(
                "recovery_changed_durable_set",
                "after reopening, the segment holds {} commits, model has {}",
                commits.len(),
                self.committed.len()
            );
        }
        let sub_ids = self.sub_ids.clone();
        let real = self.real.as_mut().ok_or_else(|| Outcome::violation("harness:no_host", ""))?;
        let o_real = obs_of(real, &sub_ids, "recovered")?;
        let twin = self.twin.as_mut().ok_or_else(|| Outcome::violation("harness:no_twin", ""))?;
        let o_twin = obs_of(twin, &sub_ids, "twin")?;
        let d = o_real.diff(&o_twin);
        if let Some(first) = d.first() {
            let key = first.split(':').next().unwrap_or("?").to_owned();
            bail!(format!("recovery_mismatch:{key}"), "recovered host differs from Twin(durable) on {} observables:\n{}", d.len(), d.join("\n"));
        }
        self.ctx.trace(&o_real.digest());
        // Idempotence: recover a copy of the recovered directory again.
        let real_report = real.runtime_wal().map(|w| w.recover_read_only().map(|r| format!("{r:?}")));
        let copy = self.base.join("idem");
        let mut tree = disk::read_tree(&self.root);
        if let Some(b) = tree.get_mut(disk::LOCK_REL) {
            b.clear();
        }
        harness(disk::write_tree(&copy, &tree), "idem_copy")?;
        let cb0 = callbacks();
        let mut again = harness(world::fresh_host(), "fresh_host")?;
        let r = crate::kernel::catch(|| again.enable_runtime_wal(world::wal_config(&copy)));
        match r {
            Ok(Ok(())) => {}
            Ok(Err(e)) => {
                let es = format!("{e:?}");
                bail!(self.classify_reopen_error(&es).replace("reopen_failed", "second_recovery_failed"), "{es}");
            }
            Err(m) => bail!("panic:second_recovery", "{m}"),
        }
        if callbacks() != cb0 {
            bail!("recovery_ran_callback", "second recovery moved the callback counter");
        }
        let o_again = obs_of(&mut again, &sub_ids, "second_recovery")?;
        let d = o_real.diff(&o_again);
        if let Some(first) = d.first() {
            let key = first.split(':').next().unwrap_or("?").to_owned();
            bail!(format!("recovery_not_idempotent:{key}"), "{}", d.join("\n"));
        }
        let again_report = again.runtime_wal().map(|w| w.recover_read_only().map(|r| format!("{r:?}")));
        match (real_report, again_report) {
            (Some(Ok(a)), Some(Ok(b))) => {
                if a != b {
                    bail!("recovery_not_idempotent:report", "read-only recovery reports differ between first and second recovery");
                }
            }
            other => bail!("recovery_not_idempotent:report_unavailable", "{:?}", other.0.map(|r| r.is_ok())),
        }
        drop(again);
        Ok(())
    }

    // ---- ops ----------------------------------------------------------------------------

    fn history(&mut self) -> Res<()> {
        let sc = self.sc;
        for (i, e) in sc.ops.iter().enumerate() {
            self.ctx.hit("time.ops");
            self.ctx.trace_str(&format!("op{i}"));
            match &e.op {
                Op::Submit(p) => {
                    if *p < sc.progs.len() {
                        self.do_submit(*p, e.fault.as_ref())?;
                    }
                }
                Op::Stage(p) => {
                    if *p < sc.progs.len() {
                        self.do_stage(*p)?;
                    }
                }
                Op::Tick => self.do_tick(e.fault.as_ref())?,
                Op::Restart { reopen } => self.do_restart(reopen)?,
                Op::Manifest { fault, crash } => {
                    if !sc.avoid {
                        self.do_manifest(*fault, crash.as_ref())?;
                    }
                }
            }
        }
        // Final clean restart: the whole history must still be recoverable.
        self.do_restart(&[])?;
        Ok(())
    }

    /// Avoidance mode: every session writes at least once before it ends.
    fn ensure_session_wrote(&mut self) -> Res<bool> {
        if !self.sc.avoid || self.session_commits > 0 {
            return Ok(true);
        }
        if self.next_filler >= self.all_progs.len() {
            return Ok(false);
        }
        let p = self.next_filler;
        self.next_filler += 1;
        self.do_submit(p, None)?;
        Ok(self.session_commits > 0)
    }

    fn crash_allowed(&mut self) -> Res<bool> {
        if self.crashes >= MAX_CRASHES {
            return Ok(false);
        }
        self.ensure_session_wrote()
    }

    fn with_real<T>(&mut self, target: Option<CrashPoint>, what: &str, f: impl FnOnce(&mut TrustedRuntimeHost) -> T) -> Res<Exec<T>> {
        let mut host = self.real.take().ok_or_else(|| Outcome::violation("harness:no_host", what.to_owned()))?;
        self.arm(target);
        let r = observed(&self.tracker, || f(&mut host));
        self.trace_kinds(what);
        match &r {
            Exec::Done(_) => self.real = Some(host),
            _ => {
                let _ = crate::kernel::catch(move || drop(host));
            }
        }
        Ok(r)
    }

    fn store_fault_arm(&mut self, target: u8) -> Res<()> {
        if target >= 4 {
            harness(std::fs::create_dir_all(self.root.join(disk::LEDGER_TMP_REL)).map_err(|e| e.to_string()), "block_ledger")?;
            return Ok(());
        }
        let real = self.real.as_mut().ok_or_else(|| Outcome::violation("harness:no_host", ""))?;
        harness(world::arm_fault(real, target), "arm_fault")
    }

    fn store_fault_disarm(&mut self, target: u8) -> Res<()> {
        if target >= 4 {
            let _ = std::fs::remove_dir_all(self.root.join(disk::LEDGER_TMP_REL));
            return Ok(());
        }
        if let Some(real) = self.real.as_mut() {
            harness(world::disarm_fault(real), "disarm_fault")?;
        }
        Ok(())
    }

    fn do_submit(&mut self, p: usize, fault: Option<&Fault>) -> Res<()> {
        let env = harness(world::envelope(&self.all_progs[p]), "envelope")?;
        let attempt_tx = !self.known.contains(&p);
        let mut crash = None;
        let mut reopen: &[CrashPoint] = &[];
        let mut store = None;
        match fault {
            Some(Fault::Crash { at, reopen: r }) if attempt_tx => {
                if self.crash_allowed()? {
                    crash = Some(at.clone());
                    reopen = r;
                }
            }
            Some(Fault::Store { target }) if attempt_tx => store = Some(*target),
            _ => {}
        }
        let sub_ids = self.sub_ids.clone();
        let hole = self.lsn_hole();
        let before = match store {
            Some(t) => {
                self.store_fault_arm(t)?;
                let real = self.real.as_mut().ok_or_else(|| Outcome::violation("harness:no_host", ""))?;
                Some(obs_of_h(real, &sub_ids, "before_fault", hole)?)
            }
            None => None,
        };
        let n0 = self.committed.len();
        let e2 = env.clone();
        let r = self.with_real(crash, "submit", move |h| h.app().submit_intent_with_runtime_wal_ack(e2))?;
        if let Some(t) = store {
            self.store_fault_disarm(t)?;
        }
        match r {
            Exec::Panicked(m) => bail!("panic:submit", "{m}"),
            Exec::Crashed(f) => {
                self.count_crash(&f, false);
                self.adopt_image(&f, attempt_tx.then_some(TxOp::Submit(p)))?;
                self.end_session_quiet();
                self.open_real(reopen)?;
                self.check_duplicates()
            }
            Exec::Done(Ok(h)) => {
                let commits = self.live_commits();
                if !self.committed_prefix_ok(&commits) {
                    bail!("live_log_lost_commit", "after submit the live segment no longer holds the earlier commits");
                }
                let new = &commits[n0..];
                if h.submission_id != self.sub_ids[p] {
                    bail!("ack_mismatch:submission_id", "handle id differs from the content-derived id");
                }
                if h.duplicate != !attempt_tx {
                    bail!("duplicate_flag_wrong", "submit of prog {p}: duplicate={} but durable-known={}", h.duplicate, !attempt_tx);
                }
                if attempt_tx {
                    if new.len() != 1 {
                        bail!("ack_without_single_commit:submit", "acknowledged submit wrote {} commit records", new.len());
                    }
                    if let Some(t) = store {
                        self.store_fault_ok(t, "submit")?;
                    }
                    let c = new[0].clone();
                    self.kind_codes[0].get_or_insert(c.tx_kind);
                    self.apply_durable(c, TxOp::Submit(p), Some(format!("{h:?}")))?;
                } else {
                    if !new.is_empty() {
                        bail!("second_acceptance_transaction", "duplicate submit of prog {p} wrote {} commit records", new.len());
                    }
                    self.ctx.hit("reach.duplicate_submit");
                    // The twin must call it a duplicate too, with the same handle.
                    let twin = self.twin.as_mut().ok_or_else(|| Outcome::violation("harness:no_twin", ""))?;
                    match twin.app().submit_intent_with_runtime_wal_ack(env) {
                        Ok(th) => {
                            if format!("{th:?}") != format!("{h:?}") {
                                bail!("ack_mismatch:duplicate_submit", "real {h:?} twin {th:?}");
                            }
                        }
                        Err(e) => bail!("harness:twin_dup_submit", "{e:?}"),
                    }
                }
                Ok(())
            }
            Exec::Done(Err(e)) => {
                let es = format!("{e:?}");
                let Some(t) = store else {
                    bail!("op_failed:submit", "submit of prog {p} failed without an injected fault: {es}");
                };
                self.fault_fired(&format!("fault.store.{}", world::FAULT_NAMES[usize::from(t.min(4))]));
                self.after_failed_op(before, n0, "submit")?;
                // Bounded liveness: the next attempt of the same op succeeds.
                self.ctx.hit("reach.retry_after_store_fault");
                self.do_submit(p, None)?;
                if !self.known.contains(&p) {
                    bail!("retry_failed:submit", "retry after store fault did not make the submission durable");
                }
                Ok(())
            }
        }
    }

    /// The op returned Ok although a store fault was armed.
    fn store_fault_ok(&mut self, t: u8, what: &str) -> Res<()> {
        match t {
            // Fails only after the commit marker is synced (resp. only the ledger update fails):
            // the host re-scans the log, finds the commit and acknowledges.
            2 | 4 => {
                self.fault_fired(&format!("fault.store.{}", world::FAULT_NAMES[usize::from(t)]));
                self.ctx.hit("reach.store_fault_ok_commit_on_disk");
                Ok(())
            }
            // The host never publishes a manifest: the armed fault cannot fire here.
            3 => {
                self.ctx.hit("reach.store_fault_armed_not_reachable");
                Ok(())
            }
            _ => bail!("harness:store_fault_not_fired", "{what}: fault target {t} armed, a transaction was attempted, yet the op returned Ok"),
        }
    }

    fn end_session_quiet(&mut self) {
        if self.session_commits == 0 {
            self.ctx.hit("fault.idle_session");
        }
        self.session_commits = 0;
    }

    /// (6) after a store fault: Err with observables unchanged and nothing new on disk.
    fn after_failed_op(&mut self, before: Option<Obs>, n0: usize, what: &str) -> Res<()> {
        let commits = self.live_commits();
        if commits.len() != n0 || !self.committed_prefix_ok(&commits) {
            if self.lsn_hole() {
                bail!(
                    "reopen_failed:idle_session_lsn_gap",
                    "{what} returned Err although its commit is on disk: the post-error re-scan of the log fails on the LSN hole left by an idle session"
                );
            }
            bail!(
                format!("failed_op_left_commit:{what}"),
                "{what} returned Err but the segment holds {} commits (before: {n0})",
                commits.len()
            );
        }
        let sub_ids = self.sub_ids.clone();
        let hole = self.lsn_hole();
        let real = self.real.as_mut().ok_or_else(|| Outcome::violation("harness:no_host", ""))?;
        let after = obs_of_h(real, &sub_ids, "after_fault", hole)?;
        if let Some(b) = before {
            let d = b.diff(&after);
            if let Some(first) = d.first() {
                let key = first.split(':').next().unwrap_or("?").to_owned();
                bail!(format!("failed_op_visible:{what}:{key}"), "{}", d.join("\n"));
            }
        }
        Ok(())
    }

    fn do_stage(&mut self, p: usize) -> Res<()> {
        let id = self.sub_ids[p];
        let r = self.with_real(None, "stage", move |h| h.admit_installed_contract_submission(id))?;
        match r {
            Exec::Panicked(m) => bail!("panic:stage", "{m}"),
            Exec::Crashed(_) => bail!("harness:crash_in_stage", ""),
            Exec::Done(Ok(d)) => {
                let text = format!("{d:?}");
                let staged_now = text.starts_with("Staged");
                let expect_staged = self.known.contains(&p) && !self.decided.contains(&p) && !self.staged.contains(&p);
                if !self.known.contains(&p) {
                    bail!("stage_of_unknown_accepted", "prog {p} is not durable-known but staging returned {text}");
                }
                if staged_now != expect_staged {
                    bail!("stage_disposition_wrong", "prog {p}: expected staged={expect_staged}, got {text}");
                }
                if staged_now {
                    self.staged.push(p);
                    self.pending.push(Pending::Stage(p, text));
                } else {
                    self.ctx.hit("reach.duplicate_stage");
                    if self.decided.contains(&p) {
                        self.twin_stage_must_equal(p, &text)?;
                    }
                }
                Ok(())
            }
            Exec::Done(Err(e)) => {
                if self.known.contains(&p) && !self.decided.contains(&p) {
                    bail!("op_failed:stage", "staging durable-known undecided prog {p} failed: {e:?}");
                }
                self.ctx.hit("reach.stage_rejected");
                if self.decided.contains(&p) {
                    self.twin_stage_must_equal(p, &format!("Err({e:?})"))?;
                }
                Ok(())
            }
        }
    }

    /// Staging an already decided submission: the twin (which applied the deciding tick) must
    /// answer exactly like the real host.
    fn twin_stage_must_equal(&mut self, p: usize, real_text: &str) -> Res<()> {
        let id = self.sub_ids[p];
        let twin = self.twin.as_mut().ok_or_else(|| Outcome::violation("harness:no_twin", ""))?;
        let t = match twin.admit_installed_contract_submission(id) {
            Ok(d) => format!("{d:?}"),
            Err(e) => format!("Err({e:?})"),
        };
        if t != real_text {
            bail!("ack_mismatch:stage_decided", "real {real_text} twin {t}");
        }
        Ok(())
    }

    /// (5) everything in durable(I) is a duplicate for the recovered host: re-submitting writes no
    /// second acceptance transaction, re-staging a decided submission stages nothing.
    fn check_duplicates(&mut self) -> Res<()> {
        let known: Vec<usize> = self.known.iter().copied().collect();
        for p in known {
            self.do_submit(p, None)?;
            if self.decided.contains(&p) {
                self.do_stage(p)?;
            }
        }
        self.ctx.hit("reach.duplicate_sweep_after_recovery");
        Ok(())
    }

    fn do_tick(&mut self, fault: Option<&Fault>) -> Res<()> {
        let attempt_tx = !self.staged.is_empty();
        let consumed = self.staged.clone();
        let mut crash = None;
        let mut reopen: &[CrashPoint] = &[];
        let mut store = None;
        match fault {
            Some(Fault::Crash { at, reopen: r }) if attempt_tx => {
                if self.crash_allowed()? {
                    crash = Some(at.clone());
                    reopen = r;
                }
            }
            Some(Fault::Store { target }) if attempt_tx => store = Some(*target),
            _ => {}
        }
        let sub_ids = self.sub_ids.clone();
        let hole = self.lsn_hole();
        let before = match store {
            Some(t) => {
                self.store_fault_arm(t)?;
                let real = self.real.as_mut().ok_or_else(|| Outcome::violation("harness:no_host", ""))?;
                Some(obs_of_h(real, &sub_ids, "before_fault", hole)?)
            }
            None => None,
        };
        let n0 = self.committed.len();
        let cb_before = callbacks();
        let r = self.with_real(crash, "tick", |h| h.tick_once())?;
        if let Some(t) = store {
            self.store_fault_disarm(t)?;
        }
        match r {
            Exec::Panicked(m) => bail!("panic:tick", "{m}"),
            Exec::Crashed(f) => {
                self.count_crash(&f, false);
                self.adopt_image(&f, attempt_tx.then_some(TxOp::Tick(consumed)))?;
                self.end_session_quiet();
                self.open_real(reopen)?;
                self.check_duplicates()
            }
            Exec::Done(Ok(records)) => {
                let commits = self.live_commits();
                if !self.committed_prefix_ok(&commits) {
                    bail!("live_log_lost_commit", "after tick the live segment no longer holds the earlier commits");
                }
                let new = &commits[n0..];
                if attempt_tx {
                    if records.len() != 1 || records[0].admitted_count != consumed.len() {
                        bail!("tick_admission_wrong", "staged {} but step records {:?}", consumed.len(), records);
                    }
                    if new.len() != 1 {
                        bail!("ack_without_single_commit:tick", "published tick wrote {} commit records", new.len());
                    }
                    if let Some(t) = store {
                        self.store_fault_ok(t, "tick")?;
                    }
                    if callbacks() == cb_before {
                        bail!("harness:rule_not_invoked", "a tick admitted {} intents without any interpreter callback", consumed.len());
                    }
                    for p in &consumed {
                        let id = self.sub_ids[*p];
                        let text = self.real.as_mut().map(|h| format!("{:?}", h.app().observe_intent_outcome(&id))).unwrap_or_default();
                        let word: String = text.chars().take_while(|c| c.is_ascii_alphanumeric()).collect();
                        self.ctx.hit(&format!("reach.outcome.{word}"));
                    }
                    let c = new[0].clone();
                    self.kind_codes[1].get_or_insert(c.tx_kind);
                    self.ctx.hit("time.ticks");
                    self.apply_durable(c, TxOp::Tick(consumed), Some(format!("{records:?}")))?;
                    if self.sc.deep {
                        self.compare_live()?;
                    }
                } else {
                    if !records.is_empty() || !new.is_empty() {
                        bail!("idle_tick_wrote", "tick with empty inbox produced {records:?} and {} commits", new.len());
                    }
                    self.ctx.hit("reach.idle_tick");
                    self.pending.push(Pending::IdleTick);
                }
                Ok(())
            }
            Exec::Done(Err(e)) => {
                let es = format!("{e:?}");
                let Some(t) = store else {
                    bail!("op_failed:tick", "tick failed without an injected fault: {es}");
                };
                self.fault_fired(&format!("fault.store.{}", world::FAULT_NAMES[usize::from(t.min(4))]));
                self.after_failed_op(before, n0, "tick")?;
                self.ctx.hit("reach.retry_after_store_fault");
                self.do_tick(None)?;
                if self.committed.len() != n0 + 1 {
                    bail!("retry_failed:tick", "retry after store fault did not publish the tick");
                }
                Ok(())
            }
        }
    }

    fn compare_live(&mut self) -> Res<()> {
        let sub_ids = self.sub_ids.clone();
        let hole = self.lsn_hole();
        let real = self.real.as_mut().ok_or_else(|| Outcome::violation("harness:no_host", ""))?;
        let a = obs_of_h(real, &sub_ids, "live", hole)?;
        let twin = self.twin.as_mut().ok_or_else(|| Outcome::violation("harness:no_twin", ""))?;
        let b = obs_of(twin, &sub_ids, "twin")?;
        let d = a.diff(&b);
        if let Some(first) = d.first() {
            let key = first.split(':').next().unwrap_or("?").to_owned();
            bail!(format!("continuation_mismatch:{key}"), "live host differs from twin after a durable tick:\n{}", d.join("\n"));
        }
        Ok(())
    }

    fn do_restart(&mut self, reopen: &[CrashPoint]) -> Res<()> {
        if !self.ensure_session_wrote()? && self.sc.avoid {
            // No filler left: skip the restart rather than create an idle session.
            if self.session_commits == 0 {
                return Ok(());
            }
        }
        self.real = None;
        self.ctx.hit("reach.clean_restart");
        self.end_session();
        self.open_real(reopen)?;
        if self.sc.deep {
            self.check_duplicates()?;
        }
        Ok(())
    }

    /// Store-level manifest session (never in avoidance mode: it is an idle epoch).
    fn do_manifest(&mut self, fault: bool, crash: Option<&CrashPoint>) -> Res<()> {
        self.real = None;
        self.end_session();
        let commits = self.live_commits();
        let manifest = WalManifest {
            manifest_digest: *blake3::hash(format!("verif-manifest-{}", commits.len()).as_bytes()).as_bytes(),
            last_committed_lsn: commits.last().map(|c| Lsn::from_raw(c.last_lsn)),
            last_commit_digest: commits.last().map(|c| c.digest),
            sealed_segment_count: 1,
        };
        let before = std::fs::read(self.root.join(disk::MANIFEST_REL)).ok();
        let target = if self.crashes < MAX_CRASHES && !self.committed.is_empty() { crash.cloned() } else { None };
        self.arm(target);
        let root = self.root.clone();
        let m2 = manifest.clone();
        let r = observed(&self.tracker, move || -> Result<Result<(), String>, String> {
            let mut store = FilesystemWalStore::open(&root, WalSegmentId::from_raw(1)).map_err(|e| format!("{e:?}"))?;
            let epoch = store.acquire_fresh_writer_epoch(Lsn::from_raw(0)).map_err(|e| format!("{e:?}"))?;
            if fault {
                store.replace_fault_plan_for_test(FilesystemWalFaultPlan::fail_next(FilesystemWalFaultTarget::PublishManifest));
            }
            Ok(store.publish_manifest(epoch.epoch_id, m2).map_err(|e| format!("{e:?}")))
        });
        self.trace_kinds("manifest");
        self.ctx.hit("reach.manifest_session");
        match r {
            Exec::Panicked(m) => bail!("panic:manifest_session", "{m}"),
            Exec::Crashed(f) => {
                self.count_crash(&f, false);
                self.adopt_image(&f, None)?;
            }
            Exec::Done(Err(e)) => {
                bail!(self.classify_reopen_error(&e).replace("reopen_failed", "store_session_failed"), "{e}");
            }
            Exec::Done(Ok(Err(e))) => {
                if !fault {
                    bail!("op_failed:publish_manifest", "{e}");
                }
                self.fault_fired("fault.store.publish_manifest");
                if std::fs::read(self.root.join(disk::MANIFEST_REL)).ok() != before {
                    bail!("failed_op_visible:publish_manifest", "manifest file changed although publish returned Err");
                }
            }
            Exec::Done(Ok(Ok(()))) => {
                if fault {
                    bail!("store_fault_ignored:publish_manifest", "PublishManifest fault armed but publish returned Ok");
                }
                match crate::kernel::catch(|| validate_filesystem_manifest(&self.root)) {
                    Ok(Ok(rep)) => {
                        if rep.last_commit_digest != commits.last().map(|c| c.digest) {
                            bail!("manifest_validation_wrong", "validated last commit digest differs from the harness parser");
                        }
                    }
                    Ok(Err(e)) => bail!("manifest_rejected_after_publish", "{e:?}"),
                    Err(m) => bail!("panic:validate_manifest", "{m}"),
                }
            }
        }
        // A manifest on disk must always decode (temp + rename is atomic).
        if self.root.join(disk::MANIFEST_REL).exists() {
            match crate::kernel::catch(|| warp_core::causal_wal::read_filesystem_manifest(&self.root)) {
                Ok(Ok(_)) => {}
                Ok(Err(e)) => bail!("manifest_torn", "manifest on disk does not decode: {e:?}"),
                Err(m) => bail!("panic:read_manifest", "{m}"),
            }
        }
        self.open_real(&[])
    }
}

// ---------------------------------------------------------------------------------------------
// Crash-free log production with twin snapshots (prefix sweep, C11)
// ---------------------------------------------------------------------------------------------

/// (segment length, ledger bytes) after an op.
pub(crate) struct Version {
    pub seg_len: usize,
    pub ledger: Vec<u8>,
}

/// A log produced by a crash-free, fully checked workload.
pub(crate) struct Produced {
    /// Directory tree of the closed log.
    pub tree: Tree,
    pub segment: Vec<u8>,
    pub commits: Vec<CommitInfo>,
    /// `twin_obs[t]` = observables of the crash-free twin after exactly `t` transactions.
    pub twin_obs: Vec<Obs>,
    pub sub_ids: Vec<Hash>,
    pub versions: Vec<Version>,
}

impl Run<'_> {
    fn snapshot(&self) -> Version {
        Version {
            seg_len: std::fs::read(self.root.join(disk::SEGMENT_REL)).map(|b| b.len()).unwrap_or(0),
            ledger: std::fs::read(self.root.join(disk::LEDGER_REL)).unwrap_or_default(),
        }
    }

    /// Run the (fault-free) ops; snapshot the disk after every op and the twin after every
    /// durable transaction.
    fn produce(&mut self) -> Res<(Vec<Version>, Vec<Obs>)> {
        let sc = self.sc;
        let sub_ids = self.sub_ids.clone();
        let mut versions = vec![self.snapshot()];
        let mut twin_obs = Vec::new();
        {
            let twin = self.twin.as_mut().ok_or_else(|| Outcome::violation("harness:no_twin", ""))?;
            twin_obs.push(obs_of(twin, &sub_ids, "twin")?);
        }
        for e in &sc.ops {
            self.ctx.hit("time.ops");
            let before = self.committed.len();
            match &e.op {
                Op::Submit(p) if *p < sc.progs.len() => self.do_submit(*p, None)?,
                Op::Stage(p) if *p < sc.progs.len() => self.do_stage(*p)?,
                Op::Tick => self.do_tick(None)?,
                Op::Restart { .. } => {
                    if self.session_commits > 0 {
                        self.do_restart(&[])?;
                    }
                }
                _ => {}
            }
            versions.push(self.snapshot());
            if self.committed.len() > before {
                let twin = self.twin.as_mut().ok_or_else(|| Outcome::violation("harness:no_twin", ""))?;
                twin_obs.push(obs_of(twin, &sub_ids, "twin")?);
            }
        }
        Ok((versions, twin_obs))
    }
}

pub(crate) fn ops_from_workload(w: &[world::WOp]) -> Vec<OpEntry> {
    w.iter()
        .map(|w| OpEntry {
            op: match w {
                world::WOp::Submit(p) => Op::Submit(*p),
                world::WOp::Stage(p) => Op::Stage(*p),
                world::WOp::Tick => Op::Tick,
                world::WOp::Restart => Op::Restart { reopen: vec![] },
            },
            fault: None,
        })
        .collect()
}

/// Produce a closed log under `base` from a crash-free workload (every C10 check applies while
/// it is produced); optionally publish a manifest matching the final log.
pub(crate) fn produce_log(progs: &[Prog], ops: &[world::WOp], ctx: &mut RunCtx, base: PathBuf, manifest: bool) -> Res<Produced> {
    let sc = C10 { avoid: false, mode: Mode::History, progs: progs.to_vec(), fillers: vec![], ops: ops_from_workload(ops), deep: false };
    let mut run = Run::start_in(&sc, ctx, base)?;
    let r = run.produce();
    let root = run.root.clone();
    let sub_ids = run.sub_ids.clone();
    let n = run.committed.len();
    run.real = None;
    run.twin = None;
    warp_core::verif::install_io_observer(None);
    run.ctx.count("time.wal_transactions", n as u64);
    let (versions, twin_obs) = r?;
    if manifest {
        let commits = run.live_commits();
        let m = WalManifest {
            manifest_digest: *blake3::hash(b"verif-c11-manifest").as_bytes(),
            last_committed_lsn: commits.last().map(|c| Lsn::from_raw(c.last_lsn)),
            last_commit_digest: commits.last().map(|c| c.digest),
            sealed_segment_count: 1,
        };
        let published = crate::kernel::catch(|| -> Result<(), String> {
            let mut store = FilesystemWalStore::open(&root, WalSegmentId::from_raw(1)).map_err(|e| format!("{e:?}"))?;
            let epoch = store.acquire_fresh_writer_epoch(Lsn::from_raw(0)).map_err(|e| format!("{e:?}"))?;
            store.publish_manifest(epoch.epoch_id, m).map_err(|e| format!("{e:?}"))
        });
        match published {
            Ok(Ok(())) => {}
            Ok(Err(e)) => bail!("harness:publish_manifest", "{e}"),
            Err(m) => bail!("panic:publish_manifest", "{m}"),
        }
    }
    let mut tree = disk::read_tree(&root);
    if let Some(b) = tree.get_mut(disk::LOCK_REL) {
        b.clear();
    }
    let segment = tree.get(disk::SEGMENT_REL).cloned().unwrap_or_default();
    let (commits, parsed) = disk::commits_in(&segment);
    if commits.len() != n || !matches!(parsed.tail, disk::Tail::Clean) {
        bail!("harness:produced_log_shape", "{} commits parsed, {n} in model, tail {:?}", commits.len(), parsed.tail);
    }
    Ok(Produced { tree, segment, commits, twin_obs, sub_ids, versions })
}
