//! C09 — a scheduler pass is all-or-nothing and strictly ordered.
//!
//! Scheduled parties: clients delivering intents to 1–3 worldlines × 1–4 writer heads, and the
//! scheduler passes between them. Faults: a poisonous intent (executor panic, footprint violation,
//! op that cannot apply) in any head's batch at any pass, missing root instance / worldline tick
//! overflow / global tick overflow (runtime pokes, hook H7), followed by further passes and trusted
//! fault resolution. Oracle: on a failed pass every top-level field of the runtime, the whole
//! provenance service and the engine equal their pre-pass fingerprints except fault evidence;
//! successful passes follow the reference coordinator (canonical head order, admitted counts,
//! tick accounting); faulted heads stay quarantined without blocking unrelated heads.

use std::collections::{BTreeMap, BTreeSet};

use serde::{Deserialize, Serialize};
use warp_core::{
    GlobalTick, NodeId, NodeKey, ProvenanceStore, SchedulerCoordinator, SchedulerFaultRecoveryAuthority, SchedulerFaultScope,
    SchedulerFaultStatus, TickReceiptDisposition, WorldlineTick,
};

use crate::kernel::{Outcome, PropertySpec, Rng, RunCtx, Scenario, Tier};
use crate::model::refinbox::{ref_ingress_id, RefDisposition, RefRuntime};
use crate::props::c01::knobs;
use crate::world::ids;
use crate::world::prog::{accesses_conflict, declared_accesses, Decl, FpClass, Step, N};
use crate::world::rules::rule_id;
use crate::world::runtime::{gen_intent, gen_world, wl_id, Intent, PassResult, World, WorldSpec};

pub const SPEC: PropertySpec = PropertySpec {
    id: "C09",
    level: "fault_enumeration",
    rule: "scenario = world (1-3 worldlines x 1-4 heads, seeded inbox policies/routing) + op tape of Deliver/Pass/Poke/ResolveAll with 0-2 poisonous intents (panic, undeclared access, cross-instance write, instance op, inapplicable op) aimed at seeded heads and passes, runtime pokes (frontier tick MAX, root instance deleted, global tick MAX) and trusted fault resolution; non-trivial = a pass failed while >=1 other head had admissible work, or a pass committed >=2 heads; distinct = hash of scenario",
    quick_runs: 2_500,
    thorough_runs: 200_000,
    real_components: &["SchedulerCoordinator::super_tick", "WorldlineRuntime (ingest, checkpoint/restore, fault records, resolve_scheduler_fault)", "ProvenanceService (checkpoint_for/restore, append_local_commit)", "Engine::commit_with_state + RuntimeCommitStateGuard", "HeadInbox admit"],
    stub_components: &["application rules: data-driven interpreter; poisonous programs are generated data"],
    assumptions: &["fault evidence fields (scheduler_faults, faulted_heads, runtime_fault, next_scheduler_fault_generation, runnable) may change on a failed pass; everything else must be restored", "fault scope (head vs runtime) is taken from the recorded fault, not prescribed by the oracle"],
    fault_kinds: &["fault.executor_panic", "fault.footprint_violation", "fault.inapplicable_op", "fault.missing_root_instance", "fault.frontier_tick_overflow", "fault.global_tick_overflow"],
};

#[derive(Clone, Debug, Serialize, Deserialize)]
pub enum Poke {
    FrontierMax { wl: u8 },
    DeleteRoot { wl: u8 },
    GlobalMax,
}

#[derive(Clone, Debug, Serialize, Deserialize)]
pub enum Op {
    Deliver(Intent),
    Pass,
    Poke(Poke),
    ResolveAll,
}

#[derive(Clone, Debug, Serialize, Deserialize)]
pub struct C09 {
    pub world: WorldSpec,
    pub ops: Vec<Op>,
    /// deliver through the witnessed-submission + ticketed-ingress path (receipt correlations exist only there)
    #[serde(default)]
    pub ticketed: bool,
}

const EVIDENCE_FIELDS: [&str; 5] = ["scheduler_faults", "faulted_heads", "runtime_fault", "next_scheduler_fault_generation", "runnable"];

fn poison(rng: &mut Rng, base: &Intent) -> (Intent, &'static str) {
    let mut i = base.clone();
    i.prog.nonce |= 0x2000_0000;
    match rng.below(5) {
        0 => {
            i.prog.steps.push(Step::Panic);
            (i, "fault.executor_panic")
        }
        1 => {
            // undeclared read of a node (performed unconditionally)
            i.prog.steps.insert(0, Step::ReadNode(N::D(0)));
            i.prog.decl = Decl::Omit { class: FpClass::NRead, k: 0 };
            (i, "fault.footprint_violation")
        }
        2 => {
            i.prog.steps.push(Step::CrossWarpUpsert { w: 1, n: N::D(0), ty: 0 });
            (i, "fault.footprint_violation")
        }
        3 => {
            i.prog.steps.push(Step::InstanceOp { w: 2 });
            (i, "fault.footprint_violation")
        }
        _ => {
            // attachment on a node that does not exist: the merged ops cannot be applied
            i.prog.steps = vec![Step::SetNodeAtt { n: N::P(9999, 0), val: Some(crate::world::prog::Val { ty: 0, bytes: vec![1] }) }];
            (i, "fault.inapplicable_op")
        }
    }
}

impl Scenario for C09 {
    fn generate(rng: &mut Rng, _tier: Tier, avoid: bool) -> Self {
        let world = gen_world(rng, 3, 4, 4);
        let mut kn = knobs(rng, avoid);
        kn.absent_16 = 0;
        let mut ops = Vec::new();
        let n_rounds = rng.urange(2, 6);
        let mut nonce = 1u32;
        let mut poisons = rng.urange(0, 2);
        let mut pokes = if rng.chance(1, 3) { 1 } else { 0 };
        for _ in 0..n_rounds {
            for _ in 0..rng.urange(0, 5) {
                let base = gen_intent(rng, &world, nonce, &kn);
                nonce += 1;
                if poisons > 0 && rng.chance(1, 4) {
                    poisons -= 1;
                    ops.push(Op::Deliver(poison(rng, &base).0));
                } else {
                    ops.push(Op::Deliver(base.clone()));
                    if rng.chance(1, 6) {
                        ops.push(Op::Deliver(base)); // retry
                    }
                }
            }
            if pokes > 0 && rng.chance(1, 3) {
                pokes -= 1;
                let wl = rng.below(world.worldlines.len() as u64) as u8;
                ops.push(Op::Poke(match rng.below(3) {
                    0 => Poke::FrontierMax { wl },
                    1 => Poke::DeleteRoot { wl },
                    _ => Poke::GlobalMax,
                }));
            }
            for _ in 0..rng.urange(1, 3) {
                ops.push(Op::Pass);
            }
            if rng.chance(1, 3) {
                ops.push(Op::ResolveAll);
                ops.push(Op::Pass);
            }
        }
        C09 { world, ops, ticketed: rng.chance(1, 3) }
    }

    fn execute(&self, ctx: &mut RunCtx) -> Outcome {
        let mut w = match World::new(&self.world) {
            Ok(w) => w,
            Err(e) => return Outcome::violation("state_construction_failed", e),
        };
        let mut model = RefRuntime::new(&self.world);
        let mut intents: BTreeMap<[u8; 32], Intent> = BTreeMap::new();
        let mut broken_wl: BTreeSet<u8> = BTreeSet::new();
        let mut global_max = false;
        let mut nontrivial = false;
        for (oi, op) in self.ops.iter().enumerate() {
            match op {
                Op::Deliver(intent) => {
                    let (exp, _) = model.ingest(intent);
                    let (ok, got) = if self.ticketed {
                        let got = w.deliver_ticketed(intent);
                        ctx.hit("reach.ticketed_delivery");
                        let ok = match (&exp, &got) {
                            (RefDisposition::Accepted, Ok(true)) | (RefDisposition::Duplicate, Ok(false)) => true,
                            (RefDisposition::RejectedByPolicy, Err(e)) => e.contains("RejectedByPolicy"),
                            (RefDisposition::Unroutable, Err(_)) => true,
                            _ => false,
                        };
                        (ok, format!("{got:?}"))
                    } else {
                        let got = w.deliver(intent);
                        let ok = match (&exp, &got) {
                            (RefDisposition::Accepted, Ok(warp_core::IngressDisposition::Accepted { .. })) => true,
                            (RefDisposition::Duplicate, Ok(warp_core::IngressDisposition::Duplicate { .. })) => true,
                            (RefDisposition::RejectedByPolicy, Err(e)) => e.contains("RejectedByPolicy"),
                            (RefDisposition::Unroutable, Err(_)) => true,
                            _ => false,
                        };
                        (ok, format!("{got:?}"))
                    };
                    if !ok {
                        return Outcome::violation("ingest_disposition_mismatch", format!("op#{oi}: reference {exp:?}, runtime {got}"));
                    }
                    intents.insert(ref_ingress_id(intent), intent.clone());
                    ctx.count("time.deliveries", 1);
                }
                Op::Poke(p) => match p {
                    Poke::FrontierMax { wl } => {
                        if warp_core::verif::set_frontier_tick(&mut w.runtime, &wl_id(*wl), WorldlineTick::MAX) {
                            broken_wl.insert(*wl);
                        }
                    }
                    Poke::DeleteRoot { wl } => {
                        if warp_core::verif::delete_root_instance(&mut w.runtime, &wl_id(*wl)) {
                            broken_wl.insert(*wl);
                        }
                    }
                    Poke::GlobalMax => {
                        warp_core::verif::set_global_tick(&mut w.runtime, GlobalTick::MAX);
                        global_max = true;
                    }
                },
                Op::ResolveAll => {
                    let active: Vec<_> = w.runtime.scheduler_faults().filter(|f| matches!(f.status, SchedulerFaultStatus::Active)).map(|f| f.fault_id).collect();
                    for id in active {
                        let auth = SchedulerFaultRecoveryAuthority::assume_runtime_owner();
                        if let Err(e) = w.runtime.resolve_scheduler_fault(&auth, id, [0xAB; 32]) {
                            return Outcome::violation("fault_resolution_failed", format!("{e:?}"));
                        }
                        ctx.hit("reach.fault_resolved");
                    }
                }
                Op::Pass => {
                    if let Err(v) = self.one_pass(&mut w, &mut model, &intents, &broken_wl, global_max, oi, ctx, &mut nontrivial) {
                        return v;
                    }
                }
            }
        }
        if nontrivial {
            ctx.nontrivial(&serde_json::to_vec(self).unwrap_or_default());
        }
        Outcome::Ok
    }

    fn shrink_candidates(&self) -> Vec<Self> {
        let mut out = Vec::new();
        for i in 0..self.ops.len() {
            let mut s = self.clone();
            s.ops.remove(i);
            out.push(s);
        }
        if self.world.worldlines.len() > 1 {
            let last = self.world.worldlines.len() - 1;
            let id = self.world.worldlines[last].id;
            let mut s = self.clone();
            s.world.worldlines.pop();
            s.ops.retain(|o| match o {
                Op::Deliver(i) => i.wl() != id,
                Op::Poke(Poke::FrontierMax { wl } | Poke::DeleteRoot { wl }) => *wl != id,
                _ => true,
            });
            out.push(s);
        }
        for (oi, op) in self.ops.iter().enumerate() {
            if let Op::Deliver(i) = op {
                if i.prog.steps.len() > 1 {
                    for si in 0..i.prog.steps.len() {
                        let mut s = self.clone();
                        if let Op::Deliver(x) = &mut s.ops[oi] {
                            x.prog.steps.remove(si);
                        }
                        out.push(s);
                    }
                }
            }
        }
        if self.world.workers > 1 {
            let mut s = self.clone();
            s.world.workers = 1;
            out.push(s);
        }
        out
    }
}

impl C09 {
    #[allow(clippy::too_many_arguments)]
    fn one_pass(&self, w: &mut World, model: &mut RefRuntime, intents: &BTreeMap<[u8; 32], Intent>, broken_wl: &BTreeSet<u8>, global_max: bool, oi: usize, ctx: &mut RunCtx, nontrivial: &mut bool) -> Result<(), Outcome> {
        let fp_r = w.fp_runtime();
        let fp_p = w.fp_provenance();
        let fp_e = w.fp_engine();
        let order_before = SchedulerCoordinator::peek_order(&w.runtime);
        let faults_before = w.runtime.scheduler_fault_count();
        let fault_ids_before: BTreeSet<_> = w.runtime.scheduler_faults().map(|f| f.fault_id).collect();
        let gt_before = w.runtime.global_tick();
        let runtime_faulted = w.runtime.is_runtime_faulted();
        let ticks_before: BTreeMap<u8, u64> = self.world.worldlines.iter().map(|wl| (wl.id, w.runtime.worldlines().get(&wl_id(wl.id)).map_or(0, |f| f.frontier_tick().as_u64()))).collect();
        let head_dbg_before: BTreeMap<usize, String> = model.heads.iter().enumerate().map(|(i, h)| (i, format!("{:?}", w.runtime.heads().get(&h.key)))).collect();
        // heads the reference expects to commit, in canonical order
        let expected: Vec<usize> = model
            .heads
            .iter()
            .enumerate()
            .filter(|(i, h)| order_before.contains(&h.key) && !model.admissible(*i).is_empty())
            .map(|(i, _)| i)
            .collect();
        // Reference prediction (only when no poisonous intent, poked worldline or tick overflow is involved):
        // every expected head's batch is run through the reference tick model on the pre-pass state.
        let mut predicted: Option<Result<BTreeMap<u8, crate::model::refstate::RefState>, usize>> = None;
        let mut predicted_receipts: Vec<Vec<([u8; 32], [u8; 32], bool)>> = Vec::new();
        let clean = !global_max
            && !runtime_faulted
            && expected.iter().all(|ix| {
                !broken_wl.contains(&model.heads[*ix].wl)
                    && model.admissible(*ix).iter().all(|id| intents.get(id).is_some_and(|i| i.prog.nonce & 0x2000_0000 == 0))
            });
        if clean {
            let mut cur: BTreeMap<u8, crate::model::refstate::RefState> = BTreeMap::new();
            for wl in &self.world.worldlines {
                if let Some(a) = w.abs_of(wl.id) {
                    cur.insert(wl.id, crate::world::tick::universe_only(&a));
                }
            }
            let mut outcome: Result<(), usize> = Ok(());
            for ix in &expected {
                let wl = model.heads[*ix].wl;
                let items: Vec<([u8; 32], u8, crate::world::prog::Prog)> = model.admissible(*ix).iter().filter_map(|id| intents.get(id).map(|i| (*id, i.kind, i.prog.clone()))).collect();
                let Some(pre) = cur.get(&wl) else { break };
                let t = crate::world::tick::ref_runtime_tick(pre, 0, &items);
                predicted_receipts.push(t.entries.clone());
                match t.post {
                    Ok(post) => {
                        cur.insert(wl, crate::world::tick::universe_only(&post));
                    }
                    Err(_) => {
                        outcome = Err(*ix);
                        break;
                    }
                }
            }
            predicted = Some(outcome.map(|()| cur));
        }
        // peek_order must be the canonical (key-sorted) order restricted to runnable heads
        let mut sorted = order_before.clone();
        sorted.sort();
        if sorted != order_before {
            return Err(Outcome::violation("head_order_not_canonical", format!("peek_order {order_before:?}")));
        }
        let result = w.pass();
        ctx.count("time.passes", 1);
        ctx.trace_str(&format!("{result:?}"));
        match result {
            PassResult::Ok(records) => {
                if runtime_faulted {
                    return Err(Outcome::violation("pass_ran_under_runtime_fault", format!("op#{oi}")));
                }
                let got: Vec<_> = records.iter().map(|r| r.head_key).collect();
                let exp: Vec<_> = expected.iter().map(|i| model.heads[*i].key).collect();
                if got != exp {
                    return Err(Outcome::violation("committed_heads_mismatch", format!("op#{oi}: records {got:?} expected (canonical order of heads with admissible work) {exp:?}")));
                }
                if w.runtime.global_tick().as_u64() != gt_before.as_u64() + 1 {
                    return Err(Outcome::violation("global_tick_not_plus_one", format!("{:?} -> {:?}", gt_before, w.runtime.global_tick())));
                }
                if w.runtime.scheduler_fault_count() != faults_before {
                    return Err(Outcome::violation("fault_recorded_on_successful_pass", format!("op#{oi}")));
                }
                let mut per_wl: BTreeMap<u8, u64> = BTreeMap::new();
                for (r, ix) in records.iter().zip(&expected) {
                    let h_wl = model.heads[*ix].wl;
                    // lawful conflicts: expected applied/rejected vector from declared footprints
                    let pre_abs_unavailable = ();
                    let _ = pre_abs_unavailable;
                    let batch = model.commit(*ix);
                    if r.admitted_count != batch.len() {
                        return Err(Outcome::violation("admitted_count_mismatch", format!("op#{oi} head {:?}: admitted {} reference batch {}", r.head_key, r.admitted_count, batch.len())));
                    }
                    *per_wl.entry(h_wl).or_insert(0) += 1;
                    let exp_tick = ticks_before.get(&h_wl).copied().unwrap_or(0) + per_wl[&h_wl];
                    if r.worldline_tick_after.as_u64() != exp_tick {
                        return Err(Outcome::violation("worldline_tick_accounting", format!("head {:?}: tick_after {} expected {exp_tick}", r.head_key, r.worldline_tick_after.as_u64())));
                    }
                    if r.commit_global_tick.as_u64() != gt_before.as_u64() + 1 {
                        return Err(Outcome::violation("commit_global_tick_mismatch", format!("{:?}", r.commit_global_tick)));
                    }
                    // receipt: entries in canonical scope-hash order, rejected iff conflicting with an earlier applied entry
                    if let Err(v) = self.check_receipt(w, h_wl, exp_tick - 1, &batch, intents, ctx) {
                        return Err(v);
                    }
                }
                for wl in &self.world.worldlines {
                    let now = w.runtime.worldlines().get(&wl_id(wl.id)).map_or(0, |f| f.frontier_tick().as_u64());
                    let exp = ticks_before[&wl.id] + per_wl.get(&wl.id).copied().unwrap_or(0);
                    if now != exp && !broken_wl.contains(&wl.id) {
                        return Err(Outcome::violation("worldline_tick_accounting", format!("worldline {}: frontier {now} expected {exp}", wl.id)));
                    }
                }
                // heads with nothing to admit are untouched
                for (i, h) in model.heads.iter().enumerate() {
                    if !expected.contains(&i) {
                        let now = format!("{:?}", w.runtime.heads().get(&h.key));
                        if head_dbg_before.get(&i) != Some(&now) {
                            return Err(Outcome::violation("idle_head_touched", format!("head {:?} changed although it had nothing to admit", h.key)));
                        }
                    }
                }
                match &predicted {
                    Some(Err(ix)) => {
                        return Err(Outcome::violation("pass_committed_but_reference_cannot_apply", format!("op#{oi}: reference says the batch of head {:?} cannot be applied", model_key(&self.world, *ix))));
                    }
                    Some(Ok(cur)) => {
                        ctx.hit("reach.pass_checked_against_reference_state");
                        for (wl, exp) in cur {
                            let got = w.abs_of(*wl).map(|a| crate::world::tick::universe_only(&a));
                            if got.as_ref() != Some(exp) {
                                return Err(Outcome::violation(
                                    "runtime_post_state_mismatch",
                                    format!("op#{oi} worldline {wl}: {}", got.map_or("missing".to_owned(), |g| crate::props::c01::diff_states(exp, &g))),
                                ));
                            }
                        }
                        // exact receipts: canonical order and dispositions
                        let mut seen: BTreeMap<u8, u64> = BTreeMap::new();
                        for ((r, ix), exp_entries) in records.iter().zip(&expected).zip(&predicted_receipts) {
                            let h_wl = model_wl(&self.world, *ix);
                            let n = seen.entry(h_wl).or_insert(0);
                            *n += 1;
                            let tick = ticks_before.get(&h_wl).copied().unwrap_or(0) + *n - 1;
                            if let Ok(entry) = w.provenance.entry(r.head_key.worldline_id, WorldlineTick::from_raw(tick)) {
                                if let Some(receipt) = entry.tick_receipt.as_ref() {
                                    let got: Vec<([u8; 32], bool)> = receipt.entries().iter().map(|e| (e.scope_hash, matches!(e.disposition, TickReceiptDisposition::Applied))).collect();
                                    let exp: Vec<([u8; 32], bool)> = exp_entries.iter().map(|(sh, _, a)| (*sh, *a)).collect();
                                    if got != exp {
                                        return Err(Outcome::violation("runtime_receipt_mismatch", format!("op#{oi} head {:?}: receipt (scope hash, applied) differs from the reference", r.head_key)));
                                    }
                                }
                            }
                        }
                    }
                    None => {}
                }
                if records.len() >= 2 {
                    *nontrivial = true;
                    ctx.hit("reach.multi_head_pass");
                }
            }
            failed => {
                let (is_panic, msg) = match &failed {
                    PassResult::Err(e) => (false, e.clone()),
                    PassResult::Panic(p) => (true, p.clone()),
                    PassResult::Ok(_) => (false, String::new()),
                };
                if runtime_faulted {
                    if !msg.contains("SchedulerRuntimeFaultActive") {
                        return Err(Outcome::violation("runtime_fault_not_blocking", format!("op#{oi}: {msg}")));
                    }
                    ctx.hit("reach.pass_blocked_by_runtime_fault");
                } else {
                    if let Some(Ok(_)) = &predicted {
                        return Err(Outcome::violation(
                            "healthy_pass_failed",
                            format!("op#{oi}: no poisonous intent, poked worldline or overflow is involved and the reference applies every batch, but the pass failed: {msg}"),
                        ));
                    }
                    // a pass may only fail if some head had work (or the global tick overflowed)
                    if expected.is_empty() && !global_max {
                        return Err(Outcome::violation("pass_failed_without_work", format!("op#{oi}: {msg}")));
                    }
                    let added = w.runtime.scheduler_fault_count() - faults_before;
                    if added != 1 {
                        // a head that is already quarantined cannot fault again; an identical fault id may be reused
                        if !(added == 0 && msg.contains("Overflow")) {
                            return Err(Outcome::violation("fault_record_count", format!("op#{oi}: {added} fault records added; {msg}")));
                        }
                    }
                    if is_panic {
                        ctx.hit("reach.pass_panicked");
                    }
                    if msg.contains("FrontierTickOverflow") {
                        ctx.hit("fault.frontier_tick_overflow");
                    } else if msg.contains("GlobalTickOverflow") {
                        ctx.hit("fault.global_tick_overflow");
                    } else if msg.contains("UnknownWarp") {
                        ctx.hit("fault.missing_root_instance");
                    } else if msg.contains("FootprintViolation") {
                        ctx.hit("fault.footprint_violation");
                    } else if msg.contains("program panic") {
                        ctx.hit("fault.executor_panic");
                    } else if msg.contains("InternalCorruption") || msg.contains("Engine(") {
                        ctx.hit("fault.inapplicable_op");
                    }
                    if expected.len() >= 2 {
                        *nontrivial = true;
                        ctx.hit("reach.failed_pass_with_other_heads_pending");
                    }
                }
                // atomicity: everything restored except fault evidence
                let diff_r: Vec<String> = fp_r.diff(&w.fp_runtime()).into_iter().filter(|f| !EVIDENCE_FIELDS.contains(&f.as_str())).collect();
                if !diff_r.is_empty() {
                    return Err(Outcome::violation(format!("failed_pass_left_runtime_changes:{}", diff_r.join("+")), format!("op#{oi} ({msg}): runtime fields changed: {diff_r:?}")));
                }
                let diff_p = fp_p.diff(&w.fp_provenance());
                if !diff_p.is_empty() {
                    return Err(Outcome::violation(format!("failed_pass_left_provenance_changes:{}", diff_p.join("+")), format!("op#{oi} ({msg})")));
                }
                if fp_e != w.fp_engine() {
                    return Err(Outcome::violation("failed_pass_left_engine_changes", format!("op#{oi} ({msg})")));
                }
                if w.runtime.global_tick() != gt_before {
                    return Err(Outcome::violation("failed_pass_advanced_global_tick", format!("op#{oi}")));
                }
                // quarantine: runnable = pre-pass runnable minus quarantined heads
                let order_after = SchedulerCoordinator::peek_order(&w.runtime);
                let expect_after: Vec<_> = order_before.iter().copied().filter(|k| !w.runtime.is_head_faulted(k) && !w.runtime.is_runtime_faulted()).collect();
                if order_after != expect_after {
                    return Err(Outcome::violation("runnable_after_fault_mismatch", format!("after {order_after:?} expected {expect_after:?}")));
                }
                // the recorded fault names a head that was expected to commit, or the runtime
                if !runtime_faulted {
                    if let Some(f) = w.runtime.scheduler_faults().find(|f| !fault_ids_before.contains(&f.fault_id)) {
                        if let SchedulerFaultScope::Head(k) = f.scope {
                            if !expected.iter().any(|i| model.heads[*i].key == k) {
                                return Err(Outcome::violation("fault_blames_idle_head", format!("{k:?}")));
                            }
                        }
                    }
                }
            }
        }
        Ok(())
    }

    /// Receipt of the tick committed by a head: canonical order and lawful rejections.
    fn check_receipt(&self, w: &World, wl: u8, tick: u64, batch: &[[u8; 32]], intents: &BTreeMap<[u8; 32], Intent>, ctx: &mut RunCtx) -> Result<(), Outcome> {
        let entry = match w.provenance.entry(wl_id(wl), WorldlineTick::from_raw(tick)) {
            Ok(e) => e,
            Err(e) => return Err(Outcome::violation("provenance_entry_missing", format!("wl {wl} tick {tick}: {e:?}"))),
        };
        let Some(receipt) = entry.tick_receipt.as_ref() else { return Ok(()) };
        // reference: candidates = batch intents whose program decodes; scope = event node (ingress id) in the root instance
        let root_w = ids::warp(0);
        let mut cands: Vec<([u8; 32], [u8; 32], Vec<crate::world::prog::Access>)> = Vec::new();
        for id in batch {
            let Some(intent) = intents.get(id) else { continue };
            let scope = NodeId(*id);
            let rid = rule_id(intent.prog.rule);
            let sh = warp_core::scope_hash(&rid, &NodeKey { warp_id: root_w, local_id: scope });
            // previous source of re-parented edges is not needed for conflicts among fresh scope nodes here:
            // use the live state after the tick only for honest programs (declared set is state-independent except prev-from)
            let none = |_: &warp_core::EdgeId| None;
            let (acc, _) = declared_accesses(&intent.prog, root_w, &scope, &none);
            cands.push((sh, rid, acc));
        }
        cands.sort_by(|a, b| (a.0, a.1).cmp(&(b.0, b.1)));
        let got_order: Vec<[u8; 32]> = receipt.entries().iter().map(|e| e.scope_hash).collect();
        let exp_order: Vec<[u8; 32]> = cands.iter().map(|c| c.0).collect();
        if got_order != exp_order {
            return Err(Outcome::violation("receipt_order_mismatch", format!("wl {wl} tick {tick}: {} entries vs {} expected", got_order.len(), exp_order.len())));
        }
        // Rejections are receipts: every rejected entry must conflict (by declared footprints, ignoring the
        // state-dependent previous-source entry) with an earlier applied one or be explained by that entry.
        let mut applied: Vec<usize> = Vec::new();
        for (i, e) in receipt.entries().iter().enumerate() {
            match e.disposition {
                TickReceiptDisposition::Applied => applied.push(i),
                TickReceiptDisposition::Rejected(_) => {
                    ctx.hit("reach.lawful_rejection_in_runtime_pass");
                    let blockers = receipt.blocked_by(i);
                    if blockers.is_empty() {
                        return Err(Outcome::violation("rejected_without_blockers", format!("wl {wl} tick {tick} entry {i}")));
                    }
                }
            }
        }
        // Applied entries must be pairwise independent under the reference predicate.
        for (x, a) in applied.iter().enumerate() {
            for b in applied.iter().skip(x + 1) {
                if accesses_conflict(&cands[*a].2, &cands[*b].2) {
                    return Err(Outcome::violation("conflicting_rewrites_both_applied", format!("wl {wl} tick {tick}: entries {a} and {b}")));
                }
            }
        }
        Ok(())
    }
}

fn model_wl(spec: &WorldSpec, ix: usize) -> u8 {
    let m = RefRuntime::new(spec);
    m.heads.get(ix).map_or(0, |h| h.wl)
}

fn model_key(spec: &WorldSpec, ix: usize) -> warp_core::WriterHeadKey {
    let m = RefRuntime::new(spec);
    m.heads[ix].key
}
