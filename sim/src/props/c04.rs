//! C04 — a tick patch replays to exactly the state the tick produced.
//!
//! Two scenario kinds. `History`: a multi-tick engine run of generated programs; every committed
//! patch is replayed on a clone of its pre-state (no rule runs), `jump_to_tick` must reproduce every
//! recorded state, and patches are *delivered with faults* (op removed / duplicated / altered /
//! reordered, wrong base). `DiffPair`: ordered pairs of well-formed states (independent or related
//! by a chain of single semantic edits incl. portal/instance evolution) through the crate-private
//! diff (hook H3): apply(a, diff(a,b)) is b or a typed error, never a third state.

use serde::{Deserialize, Serialize};
use warp_core::{AttachmentValue, NodeKey, TickCommitStatus, WarpOp, WarpState, WarpTickPatchV1};

use crate::kernel::{catch, Outcome, PropertySpec, Rng, RunCtx, Scenario, Tier};
use crate::model::refstate::{abs, RefState};
use crate::props::c01::{diff_states, knobs};
use crate::world::gen::{gen_prog, gen_state, StateSpec};
use crate::world::ids;
use crate::world::rules::{N_RULES, RULE_NAMES};
use crate::world::states::{edit_spec, state_root};
use crate::world::tick::{build_engine, Cand, EngineCfg};

pub const SPEC: PropertySpec = PropertySpec {
    id: "C04",
    level: "exploration",
    rule: "History: generated multi-instance state + programs for 1-6 sequential engine ticks (node deletion with/without incident edges, edge retype/retarget/re-parent, attachment set/clear, delete-then-recreate), patch replay per tick, jump_to_tick for every tick, patch delivery faults; DiffPair: ordered pair of well-formed states (independent, or related by 1-6 single semantic edits incl. portal open / instance delete) through diff_state + apply; non-trivial = a committed tick with >=1 op, or a diff with >=1 op; distinct = hash of scenario",
    quick_runs: 40_000,
    thorough_runs: 2_000_000,
    real_components: &["tick_patch::diff_state (H3)", "tick_patch::apply_ops_to_state / WarpTickPatchV1::apply_to_state", "GraphStore delete_edge_exact / delete_node_isolated / upsert_edge_record", "Engine::commit_with_receipt / jump_to_tick", "WorldlineState::state_root"],
    stub_components: &["application rules: data-driven interpreter"],
    assumptions: &["well-formed state = produced by the reference applier from a generated spec (edges between existing nodes, portal invariants hold)", "fault oracle compares reachable projections because the recorded state root commits to reachable content only"],
    fault_kinds: &["fault.patch_op_removed", "fault.patch_op_duplicated", "fault.patch_op_altered", "fault.patch_ops_reordered", "fault.patch_wrong_base"],
};

#[derive(Clone, Debug, Serialize, Deserialize)]
pub enum PatchFault {
    RemoveOp(usize),
    DuplicateOp(usize),
    AlterOp(usize),
    /// present the ops in reverse order to the raw applier (H3 apply_ops, no canonical re-sort)
    Reverse,
    /// apply tick `t`'s patch to the state before tick `base`
    WrongBase { base: usize },
}

#[derive(Clone, Debug, Serialize, Deserialize)]
pub enum C04 {
    History {
        state: StateSpec,
        ticks: Vec<Vec<Cand>>,
        legacy: bool,
        workers: usize,
        /// (tick index, fault)
        faults: Vec<(usize, PatchFault)>,
    },
    DiffPair {
        a: StateSpec,
        b: StateSpec,
        edits: Vec<String>,
    },
    /// Runtime path: ticks committed by scheduler passes (the recorded worldline patch is the combined
    /// ingress-materialisation + rule delta); each recorded patch is replayed on the pre-pass state.
    Runtime {
        world: crate::world::runtime::WorldSpec,
        /// rounds of (intents delivered, then one pass)
        rounds: Vec<Vec<crate::world::runtime::Intent>>,
    },
}

impl Scenario for C04 {
    fn generate(rng: &mut Rng, _tier: Tier, avoid: bool) -> Self {
        if rng.chance(1, 5) {
            let world = crate::world::runtime::gen_world(rng, 2, 3, 4);
            let mut kn = knobs(rng, avoid);
            kn.absent_16 = 0;
            let mut nonce = 1u32;
            let rounds = (0..rng.urange(1, 5))
                .map(|_| {
                    (0..rng.urange(1, 4))
                        .map(|_| {
                            nonce += 1;
                            crate::world::runtime::gen_intent(rng, &world, nonce, &kn)
                        })
                        .collect()
                })
                .collect();
            return C04::Runtime { world, rounds };
        }
        if rng.chance(1, 2) {
            // History
            let kn = knobs(rng, avoid);
            let mut state = gen_state(rng, kn.node_pool.max(3));
            let n_ticks = rng.urange(1, 6);
            let mut ticks = Vec::new();
            let mut k: u16 = 0;
            let mut nonce = 1;
            for _ in 0..n_ticks {
                let n = rng.urange(1, 5);
                let mut cs = Vec::new();
                for _ in 0..n {
                    let wi = rng.usize_below(state.insts.len());
                    let rule = rng.below(u64::from(N_RULES)) as u8;
                    let shard = rng.below(3) as u8;
                    let templ = if rng.chance(1, 5) { crate::world::gen::gen_repoint_delete(rng, &state, wi, rule, nonce) } else { None };
                    let prog = templ.unwrap_or_else(|| gen_prog(rng, &state, wi, rule, nonce, &kn));
                    nonce += 1;
                    let w = state.insts[wi].w;
                    state.insts[wi].progs.push((k, shard, prog));
                    cs.push(Cand { rule, w, k, shard });
                    k += 1;
                }
                ticks.push(cs);
            }
            let mut faults = Vec::new();
            for _ in 0..rng.urange(0, 4) {
                let t = rng.usize_below(n_ticks);
                let f = match rng.below(5) {
                    0 => PatchFault::RemoveOp(rng.usize_below(8)),
                    1 => PatchFault::DuplicateOp(rng.usize_below(8)),
                    2 => PatchFault::AlterOp(rng.usize_below(8)),
                    3 => PatchFault::Reverse,
                    _ => PatchFault::WrongBase { base: rng.usize_below(n_ticks) },
                };
                faults.push((t, f));
            }
            C04::History { state, ticks, legacy: rng.chance(1, 5), workers: *rng.pick(&[1usize, 1, 2, 3]), faults }
        } else {
            let pool_a = *rng.pick(&[3u8, 4, 6]);
            let a = gen_state(rng, pool_a);
            let mut edits = Vec::new();
            let b = if rng.chance(1, 4) {
                edits.push("independent".to_owned());
                let pool_b = *rng.pick(&[3u8, 4, 6]);
                gen_state(rng, pool_b)
            } else {
                let mut b = a.clone();
                let n = rng.urange(1, 6);
                for _ in 0..n {
                    let mut trial = b.clone();
                    let label = edit_spec(rng, &mut trial);
                    if avoid && label == "reparent_attached_edge" {
                        continue;
                    }
                    if label != "none" && trial.build_ref().is_ok() {
                        b = trial;
                        edits.push(label.to_owned());
                    }
                }
                b
            };
            if rng.chance(1, 2) {
                C04::DiffPair { a, b, edits }
            } else {
                C04::DiffPair { a: b, b: a, edits: edits.into_iter().map(|e| format!("inverse:{e}")).collect() }
            }
        }
    }

    fn execute(&self, ctx: &mut RunCtx) -> Outcome {
        match self {
            C04::History { state, ticks, legacy, workers, faults } => run_history(state, ticks, *legacy, *workers, faults, ctx),
            C04::DiffPair { a, b, edits } => run_pair(a, b, edits, ctx),
            C04::Runtime { world, rounds } => run_runtime(world, rounds, ctx),
        }
    }

    fn shrink_candidates(&self) -> Vec<Self> {
        let mut out = Vec::new();
        match self {
            C04::History { state, ticks, legacy, workers, faults } => {
                if !faults.is_empty() {
                    for i in 0..faults.len() {
                        let mut f = faults.clone();
                        f.remove(i);
                        out.push(C04::History { state: state.clone(), ticks: ticks.clone(), legacy: *legacy, workers: *workers, faults: f });
                    }
                }
                if ticks.len() > 1 {
                    let mut t = ticks.clone();
                    t.pop();
                    let n = t.len();
                    out.push(C04::History { state: state.clone(), ticks: t, legacy: *legacy, workers: *workers, faults: faults.iter().filter(|(i, _)| *i < n).cloned().collect() });
                    // drop the first tick
                    let mut t = ticks.clone();
                    t.remove(0);
                    out.push(C04::History {
                        state: state.clone(),
                        ticks: t,
                        legacy: *legacy,
                        workers: *workers,
                        faults: faults.iter().filter(|(i, _)| *i > 0).map(|(i, f)| (*i - 1, f.clone())).collect(),
                    });
                }
                for (ti, cs) in ticks.iter().enumerate() {
                    if cs.len() > 1 {
                        for ci in 0..cs.len() {
                            let mut t = ticks.clone();
                            t[ti].remove(ci);
                            out.push(C04::History { state: state.clone(), ticks: t, legacy: *legacy, workers: *workers, faults: faults.clone() });
                        }
                    }
                }
                for (ii, inst) in state.insts.iter().enumerate() {
                    for (pi, (_, _, p)) in inst.progs.iter().enumerate() {
                        if p.steps.len() > 1 {
                            for si in 0..p.steps.len() {
                                let mut s = state.clone();
                                s.insts[ii].progs[pi].2.steps.remove(si);
                                out.push(C04::History { state: s, ticks: ticks.clone(), legacy: *legacy, workers: *workers, faults: faults.clone() });
                            }
                        }
                    }
                }
                if *workers > 1 {
                    out.push(C04::History { state: state.clone(), ticks: ticks.clone(), legacy: *legacy, workers: 1, faults: faults.clone() });
                }
                for s in shrink_spec(state) {
                    out.push(C04::History { state: s, ticks: ticks.clone(), legacy: *legacy, workers: *workers, faults: faults.clone() });
                }
            }
            C04::Runtime { world, rounds } => {
                for i in 0..rounds.len() {
                    let mut r = rounds.clone();
                    r.remove(i);
                    out.push(C04::Runtime { world: world.clone(), rounds: r });
                }
                for (ri, r) in rounds.iter().enumerate() {
                    for ii in 0..r.len() {
                        let mut rr = rounds.clone();
                        rr[ri].remove(ii);
                        out.push(C04::Runtime { world: world.clone(), rounds: rr });
                        if r[ii].prog.steps.len() > 1 {
                            for si in 0..r[ii].prog.steps.len() {
                                let mut rr = rounds.clone();
                                rr[ri][ii].prog.steps.remove(si);
                                out.push(C04::Runtime { world: world.clone(), rounds: rr });
                            }
                        }
                    }
                }
            }
            C04::DiffPair { a, b, edits } => {
                for s in shrink_spec(a) {
                    out.push(C04::DiffPair { a: s, b: b.clone(), edits: edits.clone() });
                }
                for s in shrink_spec(b) {
                    out.push(C04::DiffPair { a: a.clone(), b: s, edits: edits.clone() });
                }
                // shrink both sides identically (drop the same element)
                for (sa, sb) in shrink_spec(a).into_iter().zip(shrink_spec(b)) {
                    out.push(C04::DiffPair { a: sa, b: sb, edits: edits.clone() });
                }
            }
        }
        out
    }
}

/// Structure-preserving spec reductions (only those that keep the reference build valid).
pub fn shrink_spec(s: &StateSpec) -> Vec<StateSpec> {
    let mut out = Vec::new();
    let mut push = |c: StateSpec| {
        if c.build_ref().is_ok() {
            out.push(c);
        }
    };
    if s.insts.len() > 1 {
        let mut c = s.clone();
        c.insts.pop();
        push(c);
    }
    for ii in 0..s.insts.len() {
        for i in 0..s.insts[ii].edge_atts.len() {
            let mut c = s.clone();
            c.insts[ii].edge_atts.remove(i);
            push(c);
        }
        for i in 0..s.insts[ii].node_atts.len() {
            let mut c = s.clone();
            c.insts[ii].node_atts.remove(i);
            push(c);
        }
        for i in 0..s.insts[ii].edges.len() {
            let mut c = s.clone();
            let e = c.insts[ii].edges.remove(i).0;
            c.insts[ii].edge_atts.retain(|(x, _)| *x != e);
            push(c);
        }
        for i in 0..s.insts[ii].nodes.len() {
            let mut c = s.clone();
            let n = c.insts[ii].nodes.remove(i).0;
            c.insts[ii].node_atts.retain(|(x, _)| *x != n);
            let doomed: Vec<u8> = c.insts[ii].edges.iter().filter(|(_, f, t, _)| *f == n || *t == n).map(|(e, ..)| *e).collect();
            c.insts[ii].edges.retain(|(e, ..)| !doomed.contains(e));
            c.insts[ii].edge_atts.retain(|(e, _)| !doomed.contains(e));
            push(c);
        }
    }
    out
}

fn proj(s: &RefState, root: &NodeKey) -> RefState {
    s.reachable_projection(&root.warp_id.0, &root.local_id.0)
}

fn alter(op: &WarpOp) -> WarpOp {
    match op.clone() {
        WarpOp::UpsertNode { node, mut record } => {
            record.ty = ids::ty(3);
            WarpOp::UpsertNode { node, record }
        }
        WarpOp::UpsertEdge { warp_id, mut record } => {
            record.ty = ids::ty(3);
            WarpOp::UpsertEdge { warp_id, record }
        }
        WarpOp::SetAttachment { key, value } => WarpOp::SetAttachment {
            key,
            value: match value {
                Some(AttachmentValue::Atom(a)) => {
                    let mut b = a.bytes.to_vec();
                    b.push(b'!');
                    Some(AttachmentValue::Atom(warp_core::AtomPayload::new(a.type_id, bytes::Bytes::from(b))))
                }
                Some(other) => Some(other),
                None => Some(crate::world::prog::val_att(&crate::world::prog::Val { ty: 0, bytes: b"forged".to_vec() })),
            },
        },
        WarpOp::DeleteNode { node } => WarpOp::UpsertNode { node, record: warp_core::NodeRecord { ty: ids::ty(3) } },
        other => other,
    }
}

struct Live {
    pre: WarpState,
    post_abs: RefState,
    root: [u8; 32],
    patch: WarpTickPatchV1,
}

fn run_history(spec: &StateSpec, ticks: &[Vec<Cand>], legacy: bool, workers: usize, faults: &[(usize, PatchFault)], ctx: &mut RunCtx) -> Outcome {
    let warps = spec.warps();
    let root = spec.root_key();
    let state = match spec.build() {
        Ok(s) => s,
        Err(e) => return Outcome::violation("state_construction_failed", e),
    };
    let cfg = EngineCfg { legacy_scheduler: legacy, workers, rule_order: (0..N_RULES).collect(), other_tx: vec![] };
    let mut engine = match build_engine(state, spec, &cfg) {
        Ok(e) => e,
        Err(e) => return Outcome::violation("state_construction_failed", e),
    };
    let tape: [u16; 3] = [0, 1, 2];
    let mut live: Vec<Live> = Vec::new();
    for cands in ticks {
        let pre = engine.state().clone();
        let tx = engine.begin();
        for c in cands {
            let _ = engine.apply_in_warp(tx, ids::warp(c.w), RULE_NAMES[usize::from(c.rule.min(3))], &c.scope(), &[]);
        }
        if workers > 1 {
            warp_core::verif::install_claim_controller(Some(warp_core::verif::ClaimController::new(tape.to_vec())));
        }
        let res = catch(|| engine.commit_with_receipt(tx));
        warp_core::verif::install_claim_controller(None);
        let (snap, _receipt, patch) = match res {
            Ok(Ok(x)) => x,
            Ok(Err(_)) => {
                ctx.hit("reach.history_stopped_at_commit_error");
                break;
            }
            Err(p) if cfg!(feature = "delta_validate") && (p.contains("DELTA MISMATCH") || p.contains("state_root mismatch")) => {
                // in-crate validator (monitor, not oracle): stop this history here
                ctx.hit("reach.incrate_validator_disagreement");
                break;
            }
            Err(p) => return Outcome::violation("commit_panicked", p),
        };
        ctx.count("time.ticks", 1);
        let post_abs = abs(engine.state(), &warps);
        // (a) replay the emitted patch on a clone of the pre-state, without running any rule
        let mut replay = pre.clone();
        let before_cb = crate::world::rules::callbacks();
        let r = catch(|| patch.apply_to_state(&mut replay));
        if crate::world::rules::callbacks() != before_cb {
            return Outcome::violation("replay_ran_rule_callback", "patch replay invoked a rule callback".to_owned());
        }
        match r {
            Err(p) => return Outcome::violation("patch_replay_panicked", p),
            Ok(Err(e)) => {
                let shape = classify_third_state(&abs(&pre, &warps), &post_abs);
                return Outcome::violation(format!("patch_replay_failed:{shape}"), format!("tick {}: committed patch does not apply to its pre-state: {e:?}; ops {:?}", live.len(), patch.ops()));
            }
            Ok(Ok(())) => {}
        }
        let replay_abs = abs(&replay, &warps);
        if replay_abs != post_abs {
            let shape = classify_third_state(&abs(&pre, &warps), &post_abs);
            return Outcome::violation(format!("patch_replay_mismatch:{shape}"), format!("tick {}: {}", live.len(), diff_states(&post_abs, &replay_abs)));
        }
        match state_root(&replay, root) {
            Ok(r) if r == snap.state_root => {}
            Ok(r) => return Outcome::violation("patch_replay_root_mismatch", format!("tick {}: replay root {} != snapshot {}", live.len(), hex::encode(r), hex::encode(snap.state_root))),
            Err(e) => return Outcome::violation("patch_replay_root_uncomputable", e),
        }
        if !patch.ops().is_empty() {
            ctx.nontrivial(&serde_json::to_vec(&(spec, &ticks[..=live.len()])).unwrap_or_default());
        }
        if patch.validate_digest().is_err() || patch.digest() != snap.patch_digest {
            return Outcome::violation("patch_digest_not_committed", format!("tick {}", live.len()));
        }
        live.push(Live { pre, post_abs, root: snap.state_root, patch });
    }
    // jump_to_tick reproduces every recorded state
    for i in 0..live.len() {
        match catch(|| engine.jump_to_tick(i)) {
            Err(p) => return Outcome::violation("jump_to_tick_panicked", p),
            Ok(Err(e)) => return Outcome::violation("jump_to_tick_failed", format!("tick {i}: {e:?}")),
            Ok(Ok(())) => {}
        }
        let got = abs(engine.state(), &warps);
        if got != live[i].post_abs {
            let pre_abs = abs(&live[i].pre, &warps);
            let shape = classify_third_state(&pre_abs, &live[i].post_abs);
            return Outcome::violation(format!("jump_to_tick_mismatch:{shape}"), format!("tick {i}: {}", diff_states(&live[i].post_abs, &got)));
        }
        ctx.hit("reach.jump_to_tick_checked");
    }
    // (c) patches delivered with faults
    for (t, fault) in faults {
        let Some(l) = live.get(*t) else { continue };
        let ops = l.patch.ops().to_vec();
        let rebuilt = |ops: Vec<WarpOp>| WarpTickPatchV1::new(l.patch.policy_id(), l.patch.rule_pack_id(), TickCommitStatus::Committed, l.patch.in_slots().to_vec(), l.patch.out_slots().to_vec(), ops);
        let (mut base, result): (WarpState, Result<Result<(), String>, String>) = match fault {
            PatchFault::RemoveOp(i) if !ops.is_empty() => {
                ctx.hit("fault.patch_op_removed");
                let mut o = ops.clone();
                o.remove(i % ops.len());
                let p = rebuilt(o);
                let mut b = l.pre.clone();
                let r = catch(|| p.apply_to_state(&mut b).map_err(|e| format!("{e:?}")));
                (b, r)
            }
            PatchFault::DuplicateOp(i) if !ops.is_empty() => {
                ctx.hit("fault.patch_op_duplicated");
                let mut o = ops.clone();
                o.insert(i % ops.len(), ops[i % ops.len()].clone());
                let mut b = l.pre.clone();
                let r = catch(|| warp_core::verif::apply_ops(&mut b, &o).map_err(|e| format!("{e:?}")));
                (b, r)
            }
            PatchFault::AlterOp(i) if !ops.is_empty() => {
                ctx.hit("fault.patch_op_altered");
                let mut o = ops.clone();
                let j = i % ops.len();
                o[j] = alter(&o[j]);
                if o[j] == ops[j] {
                    continue;
                }
                let p = rebuilt(o);
                let mut b = l.pre.clone();
                let r = catch(|| p.apply_to_state(&mut b).map_err(|e| format!("{e:?}")));
                (b, r)
            }
            PatchFault::Reverse if ops.len() > 1 => {
                ctx.hit("fault.patch_ops_reordered");
                let mut o = ops.clone();
                o.reverse();
                let mut b = l.pre.clone();
                let r = catch(|| warp_core::verif::apply_ops(&mut b, &o).map_err(|e| format!("{e:?}")));
                (b, r)
            }
            PatchFault::WrongBase { base } if *base != *t && *base < live.len() => {
                ctx.hit("fault.patch_wrong_base");
                let mut b = live[*base].pre.clone();
                let r = catch(|| l.patch.apply_to_state(&mut b).map_err(|e| format!("{e:?}")));
                (b, r)
            }
            _ => continue,
        };
        match result {
            Err(p) => return Outcome::violation("faulty_patch_apply_panicked", format!("{fault:?}: {p}")),
            Ok(Err(_)) => ctx.hit("reach.faulty_patch_rejected"),
            Ok(Ok(())) => {
                let got_root = state_root(&base, root);
                let got_abs = abs(&std::mem::take(&mut base), &warps);
                match got_root {
                    Ok(r) if r == l.root => {
                        // accepted under the recorded root: must denote the recorded reachable state
                        if proj(&got_abs, &root) != proj(&l.post_abs, &root) {
                            return Outcome::violation("faulty_patch_accepted_under_recorded_root", format!("{fault:?} at tick {t}: different reachable state, same state root"));
                        }
                        ctx.hit("reach.faulty_patch_harmless");
                    }
                    _ => ctx.hit("reach.faulty_patch_changes_root"),
                }
            }
        }
    }
    Outcome::Ok
}

/// Names the shape of a pre→post transition that failed to replay (for narrow violation classes).
fn classify_third_state(pre: &RefState, post: &RefState) -> &'static str {
    for (w, p) in &pre.inst {
        let Some(q) = post.inst.get(w) else { continue };
        for (e, (f, _, _)) in &p.edges {
            if let Some((f2, _, _)) = q.edges.get(e) {
                if f != f2 && p.edge_att.contains_key(e) && q.edge_att.get(e) == p.edge_att.get(e) {
                    return "reparented_edge_keeps_attachment";
                }
            }
        }
    }
    "other"
}

fn run_pair(a: &StateSpec, b: &StateSpec, edits: &[String], ctx: &mut RunCtx) -> Outcome {
    let warps = a.warps();
    let root = a.root_key();
    let (sa, sb) = match (a.build(), b.build()) {
        (Ok(x), Ok(y)) => (x, y),
        (Err(e), _) | (_, Err(e)) => return Outcome::violation("state_construction_failed", e),
    };
    let (ra, rb) = match (a.build_ref(), b.build_ref()) {
        (Ok(x), Ok(y)) => (x, y),
        (Err(e), _) | (_, Err(e)) => return Outcome::violation("harness:ref_state_build", e),
    };
    if abs(&sa, &warps) != ra || abs(&sb, &warps) != rb {
        return Outcome::violation("state_construction_mismatch", "patch-built state differs from reference-built state".to_owned());
    }
    let ops = match catch(|| warp_core::verif::diff_state(&sa, &sb)) {
        Ok(o) => o,
        Err(p) => return Outcome::violation("diff_panicked", p),
    };
    ctx.count("time.diffs", 1);
    for e in edits {
        ctx.hit(&format!("reach.edit.{e}"));
    }
    if ops.is_empty() {
        if ra != rb {
            return Outcome::violation("empty_diff_for_different_states", diff_states(&rb, &ra));
        }
        return Outcome::Ok;
    }
    ctx.nontrivial(&serde_json::to_vec(&(a, b)).unwrap_or_default());
    // delivered as a canonical patch (what a committed tick goes through)
    let patch = WarpTickPatchV1::new(0, [0u8; 32], TickCommitStatus::Committed, vec![], vec![], ops.clone());
    let mut got = sa.clone();
    match catch(|| patch.apply_to_state(&mut got)) {
        Err(p) => Outcome::violation("diff_apply_panicked", p),
        Ok(Err(_)) => {
            ctx.hit("reach.diff_apply_typed_error");
            Outcome::Ok
        }
        Ok(Ok(())) => {
            let g = abs(&got, &warps);
            if g != rb {
                let shape = classify_third_state(&ra, &rb);
                return Outcome::violation(format!("diff_third_state:{shape}"), format!("edits {edits:?}: {}\nops: {:?}", diff_states(&rb, &g), ops.iter().map(op_name).collect::<Vec<_>>()));
            }
            match (state_root(&got, root), state_root(&sb, root)) {
                (Ok(x), Ok(y)) if x == y => Outcome::Ok,
                (x, y) => Outcome::violation("diff_root_mismatch", format!("{x:?} vs {y:?}")),
            }
        }
    }
}

fn op_name(op: &WarpOp) -> &'static str {
    match op {
        WarpOp::OpenPortal { .. } => "OpenPortal",
        WarpOp::UpsertWarpInstance { .. } => "UpsertWarpInstance",
        WarpOp::DeleteWarpInstance { .. } => "DeleteWarpInstance",
        WarpOp::UpsertNode { .. } => "UpsertNode",
        WarpOp::DeleteNode { .. } => "DeleteNode",
        WarpOp::UpsertEdge { .. } => "UpsertEdge",
        WarpOp::DeleteEdge { .. } => "DeleteEdge",
        WarpOp::SetAttachment { .. } => "SetAttachment",
    }
}

fn run_runtime(spec: &crate::world::runtime::WorldSpec, rounds: &[Vec<crate::world::runtime::Intent>], ctx: &mut RunCtx) -> Outcome {
    use crate::world::runtime::{wl_id, PassResult, World};
    use warp_core::{ProvenanceStore, WorldlineTick};
    let mut w = match World::new(spec) {
        Ok(w) => w,
        Err(e) => return Outcome::violation("state_construction_failed", e),
    };
    let warps: Vec<warp_core::WarpId> = (0..ids::N_WARPS).map(ids::warp).collect();
    for round in rounds {
        for i in round {
            let _ = w.deliver(i);
        }
        // pre-pass worldline states
        let pre: Vec<(u8, warp_core::WorldlineState, u64)> = spec
            .worldlines
            .iter()
            .filter_map(|wl| w.runtime.worldlines().get(&wl_id(wl.id)).map(|f| (wl.id, f.state().clone(), f.frontier_tick().as_u64())))
            .collect();
        let records = match w.pass() {
            PassResult::Ok(r) => r,
            _ => {
                ctx.hit("reach.runtime_history_stopped_at_failed_pass");
                break;
            }
        };
        ctx.count("time.runtime_passes", 1);
        for (wl, state, tick0) in pre {
            let n = records.iter().filter(|r| r.head_key.worldline_id == wl_id(wl)).count() as u64;
            if n == 0 {
                continue;
            }
            let mut replay = state.clone();
            let before_cb = crate::world::rules::callbacks();
            for t in tick0..tick0 + n {
                let entry = match w.provenance.entry(wl_id(wl), WorldlineTick::from_raw(t)) {
                    Ok(e) => e,
                    Err(e) => return Outcome::violation("provenance_entry_missing", format!("{e:?}")),
                };
                let Some(patch) = entry.patch.as_ref() else { return Outcome::violation("provenance_entry_without_patch", format!("wl {wl} tick {t}")) };
                match catch(|| patch.apply_to_worldline_state(&mut replay)) {
                    Err(p) => return Outcome::violation("runtime_patch_replay_panicked", p),
                    Ok(Err(e)) => return Outcome::violation("runtime_patch_replay_failed", format!("wl {wl} tick {t}: recorded patch does not apply to its pre-state: {e:?}")),
                    Ok(Ok(())) => {}
                }
                if t + 1 == tick0 + n && replay.state_root() != entry.expected.state_root {
                    return Outcome::violation("runtime_patch_replay_root_mismatch", format!("wl {wl} tick {t}"));
                }
                ctx.count("time.ticks", 1);
            }
            if crate::world::rules::callbacks() != before_cb {
                return Outcome::violation("replay_ran_rule_callback", "runtime patch replay invoked a rule callback".to_owned());
            }
            let live = w.runtime.worldlines().get(&wl_id(wl)).map(|f| abs(f.state().warp_state(), &warps));
            let got = abs(replay.warp_state(), &warps);
            if live.as_ref() != Some(&got) {
                return Outcome::violation("runtime_patch_replay_mismatch", format!("wl {wl}: {}", live.map_or("missing".to_owned(), |l| diff_states(&l, &got))));
            }
            ctx.nontrivial(&serde_json::to_vec(&(spec, rounds)).unwrap_or_default());
        }
    }
    Outcome::Ok
}
