//! C02 — placeholder (not registered in MANIFEST until built).

use serde::{Deserialize, Serialize};

use crate::kernel::{Outcome, PropertySpec, Rng, RunCtx, Scenario, Tier};

pub const SPEC: PropertySpec = PropertySpec {
    id: "C02",
    level: "exploration",
    rule: "placeholder",
    quick_runs: 1,
    thorough_runs: 1,
    real_components: &[],
    stub_components: &[],
    assumptions: &[],
    fault_kinds: &[],
};

#[derive(Clone, Debug, Serialize, Deserialize)]
pub struct C02 {
    pub placeholder: u8,
}

impl Scenario for C02 {
    fn generate(_rng: &mut Rng, _tier: Tier, _avoid: bool) -> Self {
        C02 { placeholder: 0 }
    }
    fn execute(&self, _ctx: &mut RunCtx) -> Outcome {
        Outcome::Ok
    }
}
