//! C02 — parallel execution is invisible: every worker schedule commits the same tick.
//!
//! Scheduled party: the worker threads of the parallel executors. Real threads run, but the claim
//! controller (hook H1) parks every worker at each claim point and releases exactly one per tape
//! entry, so the unit→worker assignment and claim order are decided by the scenario and replay
//! exactly. Oracle: equality with the 1-worker commit + the C01 reference model; for the policy
//! surface, canonical merge of the produced deltas equals the serial baseline.

use std::num::NonZeroUsize;

use serde::{Deserialize, Serialize};
use warp_core::verif::{install_claim_controller, ClaimController};
use warp_core::{execute_parallel_with_policy, execute_serial, ExecItem, GraphView, OpOrigin, ParallelExecutionPolicy, WarpOp};

use crate::kernel::{harness_error, Outcome, PropertySpec, Rng, RunCtx, Scenario, Tier};
use crate::model::refstate::ref_merge;
use crate::props::c01::{check_against_reference, compare_commit, gen_tick};
use crate::world::gen::StateSpec;
use crate::world::ids;
use crate::world::rules::{exec_fn, N_RULES};
use crate::world::tick::{ref_tick, run_tick, Cand, EngineCfg, TickResult};

pub const SPEC: PropertySpec = PropertySpec {
    id: "C02",
    level: "exploration",
    rule: "scenario = C01 tick (state, honest programs on crafted (instance, shard) scopes) + list of (worker count, claim tape) schedules; real worker threads run under the H1 claim controller so the tape decides which worker claims each work unit; tapes: uniform, one-worker-drains-all, round-robin, PCT-style bursts, split-pair; for <=3 workers x <=4 units assignments are drawn without replacement; second surface: execute_parallel_with_policy under all five policies; non-trivial = >=2 work units and >=2 workers that each claimed a unit; distinct = (tick, worker count, unit->worker assignment)",
    quick_runs: 2_500,
    thorough_runs: 120_000,
    real_components: &["parallel::exec::execute_work_queue (real threads, scripted claim order)", "execute_dynamic_per_worker/_per_shard (scripted claim order)", "execute_static_*/dedicated (single outcome per input)", "Engine merge_parallel_deltas + commit", "footprint guard"],
    stub_components: &["application rules: data-driven interpreter", "OS thread scheduler: replaced by the claim controller baton (one worker runs between claim points)"],
    assumptions: &["workers share only the atomic claim counter (crate forbids unsafe code), so every observable interleaving is a claim order; overlap of the baton would be reported as a harness error"],
    fault_kinds: &[],
};

#[derive(Clone, Debug, Serialize, Deserialize)]
pub struct Schedule {
    pub workers: usize,
    pub tape: Vec<u16>,
}

#[derive(Clone, Debug, Serialize, Deserialize)]
pub struct PolicyCase {
    pub policy: u8,
    pub workers: usize,
    pub tape: Vec<u16>,
}

#[derive(Clone, Debug, Serialize, Deserialize)]
pub struct C02 {
    pub state: StateSpec,
    pub cands: Vec<Cand>,
    pub legacy: bool,
    pub rule_order: Vec<u8>,
    pub schedules: Vec<Schedule>,
    pub policy_cases: Vec<PolicyCase>,
}

pub fn gen_tape(rng: &mut Rng, workers: usize, len: usize) -> Vec<u16> {
    let w = workers.max(1) as u64;
    match rng.below(6) {
        0 => vec![rng.below(w) as u16],                                  // one worker drains all
        1 => (0..workers as u16).collect(),                               // round robin
        2 => {
            // PCT-style: long bursts with few change points
            let changes = rng.urange(1, 3);
            let mut t = Vec::new();
            for _ in 0..=changes {
                let who = rng.below(w) as u16;
                for _ in 0..rng.urange(1, len.max(2)) {
                    t.push(who);
                }
            }
            t
        }
        3 => {
            // split pair: two adjacent entries on different workers, rest on one worker
            let mut t = vec![rng.below(w) as u16; len.max(2)];
            let i = rng.usize_below(t.len() - 1);
            t[i] = rng.below(w) as u16;
            t[i + 1] = ((u64::from(t[i]) + 1 + rng.below(w.max(2) - 1)) % w) as u16;
            t
        }
        _ => (0..len.max(1)).map(|_| rng.below(w) as u16).collect(),
    }
}

impl Scenario for C02 {
    fn generate(rng: &mut Rng, tier: Tier, avoid: bool) -> Self {
        let n_small = rng.urange(2, 14);
        let (state, cands) = gen_tick(rng, avoid, false, n_small);
        let mut rule_order: Vec<u8> = (0..N_RULES).collect();
        rng.shuffle(&mut rule_order);
        let max_w = if tier == Tier::Thorough && rng.chance(1, 6) { 32 } else { 8 };
        let n_sched = rng.urange(3, 6);
        let mut schedules = Vec::new();
        let small_w = rng.chance(1, 2);
        for _ in 0..n_sched {
            let workers = if small_w { rng.urange(2, 3) } else { rng.urange(2, max_w) };
            let tape = gen_tape(rng, workers, n_small + workers + 2);
            if !schedules.iter().any(|s: &Schedule| s.workers == workers && s.tape == tape) {
                schedules.push(Schedule { workers, tape });
            }
        }
        // Small spaces are enumerated, not sampled: with <= 3 workers every assignment of up to 4 work
        // units to workers is one tape of length 4 (at most 81), so all of them are run.
        let exhaustive_small = n_small <= 5 && rng.chance(1, if tier == Tier::Thorough { 3 } else { 8 });
        if exhaustive_small {
            let workers = rng.urange(2, 3);
            schedules.clear();
            let total = (workers as u32).pow(4);
            for code in 0..total {
                let mut c = code;
                let tape: Vec<u16> = (0..4)
                    .map(|_| {
                        let w = (c % workers as u32) as u16;
                        c /= workers as u32;
                        w
                    })
                    .collect();
                schedules.push(Schedule { workers, tape });
            }
        }
        let mut policy_cases = Vec::new();
        if rng.chance(1, 2) {
            for policy in 0..5u8 {
                // every worker count 1..=32 (most of them do not divide the 256 virtual shards)
                let workers = if rng.chance(1, 2) { rng.urange(1, 6) } else { rng.urange(1, 32) };
                // dynamic policies claim each of the 256 virtual shards: short cyclic tapes
                let tape = gen_tape(rng, workers, 8);
                policy_cases.push(PolicyCase { policy, workers, tape });
            }
        }
        C02 { state, cands, legacy: rng.chance(1, 5), rule_order, schedules, policy_cases }
    }

    fn execute(&self, ctx: &mut RunCtx) -> Outcome {
        let pre = match self.state.build_ref() {
            Ok(p) => p,
            Err(e) => return Outcome::violation("harness:ref_state_build", e),
        };
        let reference = ref_tick(&pre, &self.cands);
        let arrival: Vec<usize> = (0..self.cands.len()).collect();
        let base_cfg = EngineCfg { legacy_scheduler: self.legacy, workers: 1, rule_order: self.rule_order.clone(), other_tx: vec![] };
        let base = match run_tick(&self.state, &self.cands, &arrival, &base_cfg, None) {
            Ok(o) => o,
            Err(e) => return Outcome::violation("state_construction_failed", e),
        };
        if let Err(v) = check_against_reference(&pre, &reference, &base, ctx) {
            return v;
        }
        // number of (instance, shard) work units among accepted candidates
        let mut units: std::collections::BTreeSet<(u8, u8)> = std::collections::BTreeSet::new();
        for (c, a) in reference.order.iter().zip(&reference.accepted) {
            if *a {
                units.insert((c.cand.w, c.cand.shard));
            }
        }
        for (si, s) in self.schedules.iter().enumerate() {
            let cfg = EngineCfg { workers: s.workers, ..base_cfg.clone() };
            let obs = match run_tick(&self.state, &self.cands, &arrival, &cfg, Some(&s.tape)) {
                Ok(o) => o,
                Err(e) => return Outcome::violation("state_construction_failed", e),
            };
            if obs.overlap {
                harness_error("claim controller observed two workers between claim points (hook placement)");
            }
            let label = format!("schedule#{si} workers={} tape={:?} claim_log={:?}", s.workers, s.tape, obs.claim_log);
            match (&base.result, &obs.result) {
                (TickResult::Committed(a), TickResult::Committed(b)) => {
                    if let Err(Outcome::Violation { class, detail }) = compare_commit(a, b, &label) {
                        return Outcome::violation(class.replace("order_dependent", "schedule_dependent"), detail);
                    }
                    if base.post != obs.post {
                        return Outcome::violation("schedule_dependent:post_state", label);
                    }
                }
                (TickResult::EngineErr(_), TickResult::EngineErr(_)) => {}
                (TickResult::ValidatorDisagreement(_), _) | (_, TickResult::ValidatorDisagreement(_)) => {}
                (a, b) => {
                    return Outcome::violation("schedule_dependent:result_kind", format!("{label}: 1 worker {a:?} vs {b:?}"));
                }
            }
            ctx.count("time.ticks", 1);
            ctx.trace_str(&format!("{:?}", obs.claim_log));
            // reach: assignment signature
            let claims: Vec<u16> = obs.claim_log.iter().flatten().copied().collect();
            let n_units = units.len();
            let assignment: Vec<u16> = claims.iter().take(n_units).copied().collect();
            let distinct_workers: std::collections::BTreeSet<u16> = assignment.iter().copied().collect();
            if n_units >= 2 && distinct_workers.len() >= 2 {
                let mut sig = serde_json::to_vec(&(&self.state, &self.cands)).unwrap_or_default();
                sig.extend_from_slice(format!("{}:{:?}", s.workers, assignment).as_bytes());
                ctx.nontrivial(&sig);
                ctx.hit("reach.units_split_across_workers");
            }
            if n_units >= 2 && distinct_workers.len() == 1 {
                ctx.hit("reach.one_worker_drained_all");
            }
            if self.schedules.len() >= 16 && n_units <= 4 && si + 1 == self.schedules.len() {
                ctx.hit("reach.assignment_space_exhausted");
            }
            if s.workers > 8 {
                ctx.hit("reach.workers_above_8");
            }
        }
        // Policy surface on the instance with most accepted candidates.
        if !self.policy_cases.is_empty() {
            if let Err(v) = self.policy_surface(&reference, ctx) {
                return v;
            }
        }
        Outcome::Ok
    }

    fn shrink_candidates(&self) -> Vec<Self> {
        let mut out = Vec::new();
        if !self.policy_cases.is_empty() {
            let mut s = self.clone();
            s.policy_cases.clear();
            out.push(s);
            for i in 0..self.policy_cases.len() {
                let mut s = self.clone();
                s.policy_cases = vec![self.policy_cases[i].clone()];
                if self.policy_cases.len() > 1 {
                    out.push(s);
                }
            }
        }
        if self.schedules.len() > 1 {
            for i in 0..self.schedules.len() {
                let mut s = self.clone();
                s.schedules = vec![self.schedules[i].clone()];
                out.push(s);
            }
        }
        if !self.schedules.is_empty() && !self.policy_cases.is_empty() {
            let mut s = self.clone();
            s.schedules.clear();
            out.push(s);
        }
        for ci in 0..self.cands.len() {
            let mut s = self.clone();
            s.cands.remove(ci);
            out.push(s);
        }
        for (ii, inst) in self.state.insts.iter().enumerate() {
            for (pi, (_, _, p)) in inst.progs.iter().enumerate() {
                if p.steps.len() > 1 {
                    for si in 0..p.steps.len() {
                        let mut s = self.clone();
                        s.state.insts[ii].progs[pi].2.steps.remove(si);
                        out.push(s);
                    }
                }
            }
        }
        for (i, sc) in self.schedules.iter().enumerate() {
            if sc.workers > 2 {
                let mut s = self.clone();
                s.schedules[i].workers = 2;
                out.push(s);
            }
            if sc.tape.len() > 1 {
                let mut s = self.clone();
                s.schedules[i].tape.pop();
                out.push(s);
            }
        }
        out
    }
}

fn policy_of(i: u8) -> ParallelExecutionPolicy {
    match i {
        0 => ParallelExecutionPolicy::DYNAMIC_PER_WORKER,
        1 => ParallelExecutionPolicy::DYNAMIC_PER_SHARD,
        2 => ParallelExecutionPolicy::STATIC_PER_WORKER,
        3 => ParallelExecutionPolicy::STATIC_PER_SHARD,
        _ => ParallelExecutionPolicy::DEDICATED_PER_SHARD,
    }
}

impl C02 {
    fn policy_surface(&self, reference: &crate::world::tick::RefTick, ctx: &mut RunCtx) -> Result<(), Outcome> {
        // choose instance with most accepted (hence mutually independent) candidates
        let mut best: Option<(u8, usize)> = None;
        for inst in &self.state.insts {
            let n = reference.order.iter().zip(&reference.accepted).filter(|(c, a)| **a && c.cand.w == inst.w).count();
            if best.is_none_or(|(_, m)| n > m) {
                best = Some((inst.w, n));
            }
        }
        let Some((w, _)) = best else { return Ok(()) };
        let state = self.state.build().map_err(|e| Outcome::violation("state_construction_failed", e))?;
        let Some(store) = state.store(&ids::warp(w)) else { return Ok(()) };
        let view = GraphView::new(store);
        let items: Vec<ExecItem> = reference
            .order
            .iter()
            .zip(&reference.accepted)
            .filter(|(c, a)| **a && c.cand.w == w)
            .enumerate()
            .map(|(i, (c, _))| ExecItem::new(exec_fn(), c.cand.scope(), OpOrigin { intent_id: i as u64, rule_id: u32::from(c.cand.rule), match_ix: 0, op_ix: 0 }))
            .collect();
        let serial: Vec<WarpOp> = execute_serial(view, &items).into_ops_unsorted();
        let serial_merged = ref_merge(serial);
        for pc in &self.policy_cases {
            let workers = NonZeroUsize::new(pc.workers.max(1)).unwrap_or(NonZeroUsize::MIN);
            let ctrl = ClaimController::new(pc.tape.clone());
            install_claim_controller(Some(ctrl.clone()));
            let res = crate::kernel::catch(|| execute_parallel_with_policy(view, &items, workers, policy_of(pc.policy)));
            install_claim_controller(None);
            if ctrl.overlap_detected() {
                harness_error("claim controller overlap on the policy surface");
            }
            let deltas = res.map_err(|p| Outcome::violation("policy_exec_panicked", format!("policy {} workers {}: {p}", pc.policy, pc.workers)))?;
            ctx.count("time.policy_executions", 1);
            let n_deltas = deltas.len();
            #[cfg(feature = "delta_validate")]
            let (flat, real_merge) = {
                let mut flat: Vec<WarpOp> = Vec::new();
                let mut copies = Vec::new();
                for d in deltas {
                    let ops = d.into_ops_unsorted();
                    flat.extend(ops.iter().cloned());
                    let mut nd = warp_core::TickDelta::new();
                    for op in ops {
                        nd.emit(op);
                    }
                    copies.push(nd);
                }
                (flat, Some(warp_core::merge_deltas_ok(copies)))
            };
            #[cfg(not(feature = "delta_validate"))]
            let flat: Vec<WarpOp> = deltas.into_iter().flat_map(warp_core::TickDelta::into_ops_unsorted).collect();
            let merged = ref_merge(flat);
            if merged != serial_merged {
                return Err(Outcome::violation(
                    "policy_dependent:merged_ops",
                    format!("policy {} workers {} tape {:?}: merged ops differ from serial baseline ({} deltas)", pc.policy, pc.workers, pc.tape, n_deltas),
                ));
            }
            #[cfg(feature = "delta_validate")]
            if let (Some(Ok(real)), Ok(exp)) = (&real_merge, &serial_merged) {
                if real != exp {
                    return Err(Outcome::violation("policy_dependent:merge_deltas", format!("policy {} workers {}", pc.policy, pc.workers)));
                }
            }
            let claims: usize = ctrl.claim_log().iter().map(Vec::len).sum();
            if claims > 0 {
                ctx.hit("reach.policy_dynamic_claims_scripted");
            }
        }
        Ok(())
    }
}
