//! Cheap top-level-field fingerprint of a COMPACT `{:?}` rendering.
//!
//! The shared `world::runtime::fingerprint` works on the pretty `{:#?}` text, which for a runtime with
//! a few committed ticks is ~1 MB (every hash byte on its own indented line) and costs 10–40 ms. This
//! property takes a fingerprint around every single read, so it uses the compact rendering (≈ 30×
//! cheaper) and splits it into the top-level fields of the outermost `Name { a: .., b: .. }` itself.
//!
//! Soundness does not depend on the splitter understanding the text: every byte of the rendering is
//! hashed into exactly one chunk and the split is a pure function of the text, so equal renderings give
//! equal fingerprints and different renderings give different fingerprints. The splitter only decides
//! how a difference is NAMED (and which chunk carries the two excluded instrumentation fields).

use std::collections::BTreeMap;

use crate::world::runtime::{Fingerprint, ALWAYS_EXCLUDED};

pub fn compact_fingerprint(text: &str) -> Fingerprint {
    let b = text.as_bytes();
    let mut hashers: BTreeMap<String, blake3::Hasher> = BTreeMap::new();
    let mut feed = |name: &str, chunk: &[u8]| {
        let h = hashers.entry(name.to_owned()).or_default();
        h.update(&(chunk.len() as u64).to_le_bytes());
        h.update(chunk);
    };
    let mut depth = 0usize;
    let mut start = 0usize;
    let mut i = 0usize;
    let mut opened = false;
    while i < b.len() {
        match b[i] {
            b'"' => {
                // string literal with escapes
                i += 1;
                while i < b.len() && b[i] != b'"' {
                    if b[i] == b'\\' {
                        i += 1;
                    }
                    i += 1;
                }
            }
            b'\'' => {
                // char literal: '\x..' or one UTF-8 scalar
                let mut j = i + 1;
                if j < b.len() && b[j] == b'\\' {
                    j += 2;
                    while j < b.len() && b[j] != b'\'' && j - i < 14 {
                        j += 1;
                    }
                } else {
                    j += 1;
                    while j < b.len() && (b[j] & 0xC0) == 0x80 {
                        j += 1;
                    }
                }
                if j < b.len() && b[j] == b'\'' {
                    i = j;
                }
            }
            b'{' | b'[' | b'(' => {
                depth += 1;
                if depth == 1 && !opened {
                    opened = true;
                    feed("<type>", &b[start..=i]);
                    start = i + 1;
                }
            }
            b'}' | b']' | b')' => {
                if depth == 1 && opened {
                    let chunk = &b[start..i];
                    feed(&field_name(chunk), chunk);
                    start = i;
                }
                depth = depth.saturating_sub(1);
            }
            b',' if depth == 1 && opened => {
                let chunk = &b[start..i];
                feed(&field_name(chunk), chunk);
                start = i + 1;
            }
            _ => {}
        }
        i += 1;
    }
    if start < b.len() {
        feed("<tail>", &b[start..]);
    }
    let mut out: BTreeMap<String, [u8; 32]> = hashers.into_iter().map(|(k, h)| (k, *h.finalize().as_bytes())).collect();
    for k in ALWAYS_EXCLUDED {
        out.remove(k);
    }
    Fingerprint(out)
}

fn field_name(chunk: &[u8]) -> String {
    let s = String::from_utf8_lossy(chunk);
    let s = s.trim();
    match s.split_once(':') {
        Some((name, _)) if !name.is_empty() && name.bytes().all(|c| c.is_ascii_alphanumeric() || c == b'_') => name.to_owned(),
        _ => "<unnamed>".to_owned(),
    }
}

#[cfg(test)]
mod tests {
    use super::*;

    #[derive(Debug)]
    #[allow(dead_code)]
    struct Inner {
        x: Vec<u8>,
        s: String,
        c: char,
    }
    #[derive(Debug)]
    #[allow(dead_code)]
    struct Outer {
        a: u32,
        inner: Inner,
        receipt_correlation_full_scan_count: u32,
        z: (u8, u8),
    }

    #[test]
    fn splits_top_level_fields() {
        let mk = |a, s: &str, n| Outer { a, inner: Inner { x: vec![1, 2], s: s.to_owned(), c: '"' }, receipt_correlation_full_scan_count: n, z: (1, 2) };
        let f1 = compact_fingerprint(&format!("{:?}", mk(1, "q\"}, {", 5)));
        let f2 = compact_fingerprint(&format!("{:?}", mk(1, "q\"}, {", 6)));
        let f3 = compact_fingerprint(&format!("{:?}", mk(2, "q\"}, {", 5)));
        let f4 = compact_fingerprint(&format!("{:?}", mk(1, "other", 5)));
        assert!(f1.0.contains_key("a") && f1.0.contains_key("inner") && f1.0.contains_key("z"));
        assert!(f1.diff(&f2).is_empty());
        assert_eq!(f1.diff(&f3), vec!["a".to_owned()]);
        assert_eq!(f1.diff(&f4), vec!["inner".to_owned()]);
    }
}
