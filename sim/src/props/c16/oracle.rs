//! Reference expectations for observation results: which requests the history can serve, what a
//! served reading must say about its coordinate, and which parts of a reading are bound to the
//! coordinate (and therefore must never change) versus to the moment of observation.

use std::collections::BTreeMap;

use warp_core::{
    BuiltinObserverPlan, CoordinateAt, EchoCoordinate, ObservationArtifact, ObservationAt, ObservationBasisPosture, ObservationError,
    ObservationFrame, ObservationPayload, ObservationProjection, ObservationReadBudget, ObservationRequest, ObservationRights,
    ObserveOpticRequest, OpticApertureShape, OpticFocus, OpticObstruction, OpticObstructionKind, OpticReading, ProvenanceRef,
    ReadingBudgetPosture, ReadingEnvelope, ReadingObserverBasis, ReadingObserverPlan, ReadingResidualPosture, ReadingRightsPosture,
    ReadingWitnessRef, WitnessBasis, WorldlineId, WorldlineTick,
};

use super::req::{encode_answer, installed_plan, natural_plan, parse_vars, strand_id, CHILD_WL, QUERY_ID, UNKNOWN_WL};
use crate::model::refstate::RefState;
use crate::world::runtime::wl_id;

pub type H = [u8; 32];
/// (class, detail)
pub type V = (String, String);

fn v(class: impl Into<String>, detail: impl Into<String>) -> V {
    (class.into(), detail.into())
}

#[derive(Clone, Debug)]
pub struct TickFact {
    pub state_root: H,
    pub commit_hash: H,
    pub global_tick: u64,
    /// abstract state after this tick, when it was observable (last commit of the worldline in its pass)
    pub abs: Option<RefState>,
}

/// Ground truth recorded by the harness from the scheduler's step records (never from reads).
#[derive(Clone, Debug, Default)]
pub struct Truth {
    /// worldline index -> facts per provenance entry (index i = state after entry i)
    pub wls: BTreeMap<u8, Vec<TickFact>>,
    /// (source worldline, fork tick) once the child exists
    pub child_of: Option<(u8, u64)>,
    /// number of checkpoints that may exist per worldline (evidence epoch)
    pub ckpts: BTreeMap<u8, u64>,
    pub query_installed: bool,
}

impl Truth {
    pub fn len(&self, wl: u8) -> Option<u64> {
        self.wls.get(&wl).map(|v| v.len() as u64)
    }
    pub fn fact(&self, wl: u8, t: u64) -> Option<&TickFact> {
        self.wls.get(&wl).and_then(|v| usize::try_from(t).ok().and_then(|i| v.get(i)))
    }
    pub fn ckpt_epoch(&self, wl: u8) -> u64 {
        self.ckpts.get(&wl).copied().unwrap_or(0)
    }
}

pub fn wl_index(id: &WorldlineId) -> Option<u8> {
    (0..=UNKNOWN_WL).find(|i| wl_id(*i) == *id)
}

pub fn err_kind(e: &ObservationError) -> &'static str {
    match e {
        ObservationError::InvalidWorldline(_) => "invalid_worldline",
        ObservationError::InvalidTick { .. } => "invalid_tick",
        ObservationError::UnsupportedFrameProjection { .. } => "unsupported_pairing",
        ObservationError::UnsupportedQuery { .. } => "unsupported_query",
        ObservationError::ContractQueryObserverFailed { .. } => "query_failed",
        ObservationError::UnsupportedObserverPlan(_) => "unsupported_plan",
        ObservationError::UnsupportedObserverInstance(_) => "unsupported_instance",
        ObservationError::UnsupportedRights(_) => "unsupported_rights",
        ObservationError::BudgetExceeded { .. } => "budget",
        ObservationError::ObservationUnavailable { .. } => "unavailable",
        ObservationError::CodecFailure(_) => "codec_failure",
    }
}

pub fn obstruction_kind(k: OpticObstructionKind) -> &'static str {
    match k {
        OpticObstructionKind::MissingWitness => "missing_witness",
        OpticObstructionKind::MissingRetainedReading => "missing_retained_reading",
        OpticObstructionKind::StaleBasis => "stale_basis",
        OpticObstructionKind::CapabilityDenied => "capability_denied",
        OpticObstructionKind::BudgetExceeded => "budget",
        OpticObstructionKind::UnsupportedAperture => "unsupported_aperture",
        OpticObstructionKind::UnsupportedProjectionLaw => "unsupported_projection_law",
        OpticObstructionKind::UnsupportedIntentFamily => "unsupported_intent_family",
        OpticObstructionKind::AttachmentDescentRequired => "attachment_descent_required",
        OpticObstructionKind::AttachmentDescentDenied => "attachment_descent_denied",
        OpticObstructionKind::LiveTailRequiresReduction => "live_tail",
        OpticObstructionKind::ConflictingFrontier => "conflicting_frontier",
        OpticObstructionKind::PluralityRequiresExplicitPolicy => "plurality",
    }
}

fn valid_pairing(frame: ObservationFrame, p: &ObservationProjection) -> bool {
    matches!(
        (frame, p),
        (ObservationFrame::CommitBoundary, ObservationProjection::Head | ObservationProjection::Snapshot)
            | (ObservationFrame::RecordedTruth, ObservationProjection::TruthChannels { .. })
            | (ObservationFrame::QueryView, ObservationProjection::Query { .. })
    )
}

/// Reasons (from the request and the recorded history alone) why this request cannot be served.
/// Empty = the history can serve it.
pub fn obs_reasons(req: &ObservationRequest, t: &Truth) -> Vec<&'static str> {
    let mut r = Vec::new();
    let len = wl_index(&req.coordinate.worldline_id).and_then(|w| t.len(w));
    if len.is_none() {
        r.push("invalid_worldline");
    }
    if !valid_pairing(req.frame, &req.projection) {
        r.push("unsupported_pairing");
    } else {
        match &req.projection {
            ObservationProjection::Query { query_id, vars_bytes } => {
                if !(t.query_installed && *query_id == QUERY_ID) {
                    r.push("unsupported_query");
                } else {
                    let plan_ok = match &req.observer_plan {
                        ReadingObserverPlan::Builtin { plan } => *plan == BuiltinObserverPlan::QueryBytes,
                        ReadingObserverPlan::Authored { plan } => **plan == installed_plan(),
                    };
                    if !plan_ok {
                        r.push("unsupported_plan");
                    }
                    if parse_vars(vars_bytes).is_err() {
                        r.push("query_failed");
                    }
                }
            }
            p => {
                if req.observer_plan != (ReadingObserverPlan::Builtin { plan: natural_plan(p) }) {
                    r.push("unsupported_plan");
                }
            }
        }
    }
    if req.observer_instance.is_some() {
        r.push("unsupported_instance");
    }
    if matches!(req.rights, ObservationRights::CapabilityScoped { .. }) {
        r.push("unsupported_rights");
    }
    if let Some(len) = len {
        match req.coordinate.at {
            ObservationAt::Tick(tick) if tick.as_u64() >= len => r.push("invalid_tick"),
            ObservationAt::Frontier if req.frame == ObservationFrame::RecordedTruth && len == 0 => r.push("unavailable"),
            _ => {}
        }
    }
    r
}

fn served_class(reason: &str) -> String {
    match reason {
        "invalid_worldline" => "unknown_worldline_served".to_owned(),
        "invalid_tick" => "future_tick_served".to_owned(),
        "unsupported_pairing" => "unsupported_pairing_served".to_owned(),
        "unavailable" => "missing_truth_served".to_owned(),
        other => format!("unsupported_request_served:{other}"),
    }
}

/// Facts the recorded history prescribes for a coordinate.
#[derive(Clone, Debug)]
pub struct CoordFacts {
    pub frontier: bool,
    pub tick: u64,
    pub gt: Option<u64>,
    pub fact: Option<TickFact>,
    pub witness_tick: Option<u64>,
}

pub fn coord_facts(frame: ObservationFrame, at: ObservationAt, facts: &[TickFact]) -> Option<CoordFacts> {
    let len = facts.len() as u64;
    let get = |i: u64| usize::try_from(i).ok().and_then(|i| facts.get(i)).cloned();
    match (frame, at) {
        (_, ObservationAt::Tick(t)) => {
            let f = get(t.as_u64())?;
            Some(CoordFacts { frontier: false, tick: t.as_u64(), gt: Some(f.global_tick), fact: Some(f), witness_tick: Some(t.as_u64()) })
        }
        (ObservationFrame::RecordedTruth, ObservationAt::Frontier) => {
            let f = get(len.checked_sub(1)?)?;
            Some(CoordFacts { frontier: true, tick: len - 1, gt: Some(f.global_tick), fact: Some(f), witness_tick: Some(len - 1) })
        }
        (_, ObservationAt::Frontier) => {
            if len == 0 {
                Some(CoordFacts { frontier: true, tick: 0, gt: None, fact: None, witness_tick: None })
            } else {
                let f = get(len - 1)?;
                Some(CoordFacts { frontier: true, tick: len, gt: Some(f.global_tick), fact: Some(f), witness_tick: Some(len - 1) })
            }
        }
    }
}

/// Everything a served reading must say, given request + history.
pub struct Expected<'a> {
    pub wl: WorldlineId,
    pub is_child: bool,
    pub facts: CoordFacts,
    pub frame: ObservationFrame,
    pub projection: &'a ObservationProjection,
    pub budget: ObservationReadBudget,
    /// state root of the live frontier when the worldline has no commit yet
    pub empty_root: Option<H>,
}

fn prefix(frontier: bool) -> &'static str {
    if frontier {
        "frontier_reading_stale"
    } else {
        "reading_not_at_coordinate"
    }
}

fn check_head_like(exp: &Expected<'_>, what: &str, tick: WorldlineTick, gt: Option<warp_core::GlobalTick>, state_root: &H, commit_hash: &H) -> Result<(), V> {
    let p = prefix(exp.facts.frontier);
    if tick.as_u64() != exp.facts.tick {
        return Err(v(format!("{p}:{what}.worldline_tick"), format!("{what} says tick {} but the coordinate is tick {}", tick.as_u64(), exp.facts.tick)));
    }
    if gt.map(|g| g.as_u64()) != exp.facts.gt {
        return Err(v(format!("{p}:{what}.commit_global_tick"), format!("{what} says commit_global_tick {gt:?}, history recorded {:?}", exp.facts.gt)));
    }
    match &exp.facts.fact {
        Some(f) => {
            if *state_root != f.state_root {
                return Err(v(format!("{p}:{what}.state_root"), format!("{what} state_root {} but history recorded {} at tick {}", hex::encode(state_root), hex::encode(f.state_root), exp.facts.tick)));
            }
            if *commit_hash != f.commit_hash {
                return Err(v(format!("{p}:{what}.commit_hash"), format!("{what} commit_hash {} but history recorded {}", hex::encode(commit_hash), hex::encode(f.commit_hash))));
            }
        }
        None => {
            if let Some(r) = exp.empty_root {
                if *state_root != r {
                    return Err(v(format!("{p}:{what}.state_root"), format!("{what} state_root {} but the uncommitted frontier state has root {}", hex::encode(state_root), hex::encode(r))));
                }
            }
        }
    }
    Ok(())
}

/// Payload + envelope against the coordinate facts (shared by `observe` and `observe_optic`).
pub fn check_reading(exp: &Expected<'_>, payload: &ObservationPayload, env: &ReadingEnvelope) -> Result<(), V> {
    let p = prefix(exp.facts.frontier);
    let mut residual = ReadingResidualPosture::Complete;
    let mut plan = ReadingObserverPlan::Builtin { plan: natural_plan(exp.projection) };
    match (payload, exp.projection) {
        (ObservationPayload::Head(h), ObservationProjection::Head) => check_head_like(exp, "payload", h.worldline_tick, h.commit_global_tick, &h.state_root, &h.commit_hash)?,
        (ObservationPayload::Snapshot(s), ObservationProjection::Snapshot) => check_head_like(exp, "payload", s.worldline_tick, s.commit_global_tick, &s.state_root, &s.commit_hash)?,
        (ObservationPayload::TruthChannels(chs), ObservationProjection::TruthChannels { channels }) => {
            for w in chs.windows(2) {
                if w[0].0 >= w[1].0 {
                    return Err(v(format!("{p}:payload.channel_order"), "recorded truth channels not in strictly ascending channel-id order"));
                }
            }
            if let Some(filter) = channels {
                if let Some((c, _)) = chs.iter().find(|(c, _)| !filter.contains(c)) {
                    return Err(v(format!("{p}:payload.channel_filter"), format!("channel {c:?} returned although not requested")));
                }
            }
        }
        (ObservationPayload::QueryBytes(b), ObservationProjection::Query { vars_bytes, .. }) => {
            plan = ReadingObserverPlan::Authored { plan: Box::new(installed_plan()) };
            let Ok((mode, n)) = parse_vars(vars_bytes) else {
                return Err(v("unsupported_request_served:query_failed", "query bytes returned for vars the observer rejects"));
            };
            if mode == 1 {
                residual = ReadingResidualPosture::Residual;
            }
            if b.len() < 41 || b[0] != mode {
                return Err(v(format!("{p}:payload.query_shape"), format!("query answer malformed: {} bytes", b.len())));
            }
            let mut t8 = [0u8; 8];
            t8.copy_from_slice(&b[1..9]);
            if u64::from_le_bytes(t8) != exp.facts.tick {
                return Err(v(format!("{p}:payload.query_tick"), format!("query observer was handed tick {} for coordinate tick {}", u64::from_le_bytes(t8), exp.facts.tick)));
            }
            if let Some(f) = &exp.facts.fact {
                if b[9..41] != f.state_root {
                    return Err(v(format!("{p}:payload.query_state_root"), format!("state replayed/held at the coordinate has root {} but history recorded {}", hex::encode(&b[9..41]), hex::encode(f.state_root))));
                }
                if let Some(abs) = &f.abs {
                    let want = encode_answer(mode, exp.facts.tick, &f.state_root, abs, n);
                    if *b != want {
                        return Err(v(format!("{p}:payload.query_answer"), format!("query answer {} differs from the answer derived from the state recorded after tick {}: {}", hex::encode(b), exp.facts.tick, hex::encode(want))));
                    }
                }
            }
        }
        (other, proj) => {
            return Err(v(format!("{p}:payload.variant"), format!("payload {other:?} for projection {proj:?}")));
        }
    }
    if env.observer_plan != plan {
        return Err(v(format!("{p}:reading.observer_plan"), format!("{:?} expected {plan:?}", env.observer_plan)));
    }
    if env.observer_instance.is_some() {
        return Err(v(format!("{p}:reading.observer_instance"), "one-shot reading carries an observer instance"));
    }
    let basis = match exp.frame {
        ObservationFrame::CommitBoundary => ReadingObserverBasis::CommitBoundary,
        ObservationFrame::RecordedTruth => ReadingObserverBasis::RecordedTruth,
        ObservationFrame::QueryView => ReadingObserverBasis::QueryView,
    };
    if env.observer_basis != basis {
        return Err(v(format!("{p}:reading.observer_basis"), format!("{:?} for frame {:?}", env.observer_basis, exp.frame)));
    }
    match (&env.query_identity, exp.projection) {
        (Some(qi), ObservationProjection::Query { query_id, vars_bytes }) => {
            if qi.query_id != *query_id || qi.vars_digest[..] != echo_wasm_abi::query_vars_digest_v1(vars_bytes)[..] {
                return Err(v(format!("{p}:reading.query_identity"), "query identity names another query or other vars"));
            }
        }
        (None, ObservationProjection::Query { .. }) | (Some(_), _) => {
            return Err(v(format!("{p}:reading.query_identity"), "query identity present iff the projection is a query"));
        }
        (None, _) => {}
    }
    // witness refs
    let want_wit = match (exp.facts.witness_tick, &exp.facts.fact) {
        (Some(t), Some(f)) => Some(ReadingWitnessRef::ResolvedCommit { reference: ProvenanceRef { worldline_id: exp.wl, worldline_tick: WorldlineTick::from_raw(t), commit_hash: f.commit_hash } }),
        _ => None,
    };
    match (&want_wit, env.witness_refs.as_slice()) {
        (Some(w), [got]) if w == got => {}
        (None, [ReadingWitnessRef::EmptyFrontier { worldline_id, .. }]) if *worldline_id == exp.wl => {}
        (w, got) => return Err(v(format!("{p}:reading.witness_refs"), format!("witness refs {got:?}, coordinate prescribes {w:?}"))),
    }
    // basis posture
    let posture_ok = match (&env.parent_basis_posture, exp.is_child, exp.facts.frontier) {
        (ObservationBasisPosture::Worldline, false, _) => true,
        (ObservationBasisPosture::StrandHistorical { strand_id: s }, true, false) => *s == strand_id(),
        (ObservationBasisPosture::StrandAtAnchor { strand_id: s }, true, true)
        | (ObservationBasisPosture::StrandParentAdvancedDisjoint { strand_id: s, .. }, true, true)
        | (ObservationBasisPosture::StrandRevalidationRequired { strand_id: s, .. }, true, true) => *s == strand_id(),
        _ => false,
    };
    if !posture_ok {
        return Err(v(format!("{p}:reading.parent_basis_posture"), format!("{:?} (child worldline: {}, frontier: {})", env.parent_basis_posture, exp.is_child, exp.facts.frontier)));
    }
    // budget posture
    match (exp.budget, env.budget_posture) {
        (ObservationReadBudget::UnboundedOneShot, ReadingBudgetPosture::UnboundedOneShot) => {}
        (ObservationReadBudget::Bounded { max_payload_bytes: mp, max_witness_refs: mw }, ReadingBudgetPosture::Bounded { max_payload_bytes, payload_bytes, max_witness_refs, witness_refs }) => {
            if mp != max_payload_bytes || mw != max_witness_refs || witness_refs != env.witness_refs.len() as u64 {
                return Err(v(format!("{p}:reading.budget_posture"), format!("{:?} for budget {:?}", env.budget_posture, exp.budget)));
            }
            if payload_bytes > max_payload_bytes || witness_refs > max_witness_refs {
                return Err(v("budget_exceeded_served", format!("{:?}", env.budget_posture)));
            }
        }
        _ => return Err(v(format!("{p}:reading.budget_posture"), format!("{:?} for budget {:?}", env.budget_posture, exp.budget))),
    }
    if env.rights_posture != ReadingRightsPosture::KernelPublic {
        return Err(v(format!("{p}:reading.rights_posture"), format!("{:?}", env.rights_posture)));
    }
    if env.residual_posture != residual {
        return Err(v(format!("{p}:reading.residual_posture"), format!("{:?} expected {residual:?}", env.residual_posture)));
    }
    if env.contract.is_some() || !env.retained_evidence.is_empty() {
        return Err(v(format!("{p}:reading.contract"), "contract evidence reported although no contract package is installed"));
    }
    Ok(())
}

/// Full check of one `observe` result against request + history.
pub fn check_obs(req: &ObservationRequest, res: &Result<ObservationArtifact, ObservationError>, t: &Truth, empty_root: Option<H>) -> Result<(), V> {
    let reasons = obs_reasons(req, t);
    let wl = wl_index(&req.coordinate.worldline_id);
    match res {
        Err(e) => {
            let k = err_kind(e);
            let justified = match e {
                ObservationError::BudgetExceeded { max_payload_bytes, payload_bytes, max_witness_refs, witness_refs } => {
                    matches!(req.budget, ObservationReadBudget::Bounded { max_payload_bytes: a, max_witness_refs: b } if a == *max_payload_bytes && b == *max_witness_refs)
                        && (payload_bytes > max_payload_bytes || witness_refs > max_witness_refs)
                }
                // the live-basis report of a strand frontier may be unavailable
                ObservationError::ObservationUnavailable { .. } if wl == Some(CHILD_WL) && req.coordinate.at == ObservationAt::Frontier => true,
                _ => reasons.contains(&k),
            };
            if !justified {
                return Err(v(format!("unjustified_refusal:{k}"), format!("request {req:?} refused with {e:?}; the history gives only these reasons: {reasons:?}")));
            }
            // typed errors must name the request's own coordinate
            let names_ok = match e {
                ObservationError::InvalidWorldline(w) => *w == req.coordinate.worldline_id,
                ObservationError::InvalidTick { worldline_id, tick } => *worldline_id == req.coordinate.worldline_id && ObservationAt::Tick(*tick) == req.coordinate.at,
                ObservationError::ObservationUnavailable { worldline_id, at } => *worldline_id == req.coordinate.worldline_id && *at == req.coordinate.at,
                ObservationError::UnsupportedFrameProjection { frame, projection } => *frame == req.frame && *projection == req.projection.kind(),
                _ => true,
            };
            if !names_ok {
                return Err(v(format!("typed_error_names_other_coordinate:{k}"), format!("{e:?} for {req:?}")));
            }
            Ok(())
        }
        Ok(a) => {
            if let Some(r) = reasons.first() {
                return Err(v(served_class(r), format!("request {req:?} cannot be served ({reasons:?}) but returned a reading: resolved {:?} payload {:?}", a.resolved, a.payload)));
            }
            let Some(wl) = wl else { return Err(v("unknown_worldline_served", format!("{req:?}"))) };
            let facts = t.wls.get(&wl).map(Vec::as_slice).unwrap_or(&[]);
            let Some(cf) = coord_facts(req.frame, req.coordinate.at, facts) else {
                return Err(v("future_tick_served", format!("{req:?} -> {:?}", a.resolved)));
            };
            let p = prefix(cf.frontier);
            if a.frame != req.frame {
                return Err(v(format!("{p}:frame"), format!("{:?} for {:?}", a.frame, req.frame)));
            }
            if a.projection != req.projection {
                return Err(v(format!("{p}:projection"), format!("{:?} for {:?}", a.projection, req.projection)));
            }
            if a.resolved.worldline_id != req.coordinate.worldline_id || a.resolved.requested_at != req.coordinate.at {
                return Err(v(format!("{p}:resolved.coordinate"), format!("{:?} for {:?}", a.resolved, req.coordinate)));
            }
            let exp = Expected { wl: req.coordinate.worldline_id, is_child: wl == CHILD_WL, facts: cf, frame: req.frame, projection: &req.projection, budget: req.budget, empty_root };
            check_head_like(&exp, "resolved", a.resolved.resolved_worldline_tick, a.resolved.commit_global_tick, &a.resolved.state_root, &a.resolved.commit_hash)?;
            if let (Some(obs), Some(commit)) = (a.resolved.observed_after_global_tick, a.resolved.commit_global_tick) {
                if obs < commit {
                    return Err(v("observed_before_commit", format!("{:?}", a.resolved)));
                }
            }
            check_reading(&exp, &a.payload, &a.reading)
        }
    }
}

/// First field of the coordinate-bound part of two artifacts that differs (`observed_after_global_tick`
/// and `artifact_hash`, which folds it in, record WHEN the read happened and are excluded).
pub fn diff_artifact(a: &ObservationArtifact, b: &ObservationArtifact) -> Option<&'static str> {
    macro_rules! d {
        ($x:expr, $y:expr, $n:expr) => {
            if $x != $y {
                return Some($n);
            }
        };
    }
    d!(a.payload, b.payload, "payload");
    d!(a.resolved.resolved_worldline_tick, b.resolved.resolved_worldline_tick, "resolved_worldline_tick");
    d!(a.resolved.commit_global_tick, b.resolved.commit_global_tick, "commit_global_tick");
    d!(a.resolved.state_root, b.resolved.state_root, "state_root");
    d!(a.resolved.commit_hash, b.resolved.commit_hash, "commit_hash");
    d!(a.resolved.worldline_id, b.resolved.worldline_id, "worldline_id");
    d!(a.resolved.requested_at, b.resolved.requested_at, "requested_at");
    d!(a.resolved.observation_version, b.resolved.observation_version, "observation_version");
    d!(a.frame, b.frame, "frame");
    d!(a.projection, b.projection, "projection");
    diff_envelope(&a.reading, &b.reading)
}

pub fn diff_envelope(a: &ReadingEnvelope, b: &ReadingEnvelope) -> Option<&'static str> {
    macro_rules! d {
        ($f:ident) => {
            if a.$f != b.$f {
                return Some(stringify!($f));
            }
        };
    }
    d!(observer_plan);
    d!(observer_instance);
    d!(observer_basis);
    d!(contract);
    d!(query_identity);
    d!(retained_evidence);
    d!(witness_refs);
    d!(parent_basis_posture);
    d!(budget_posture);
    d!(rights_posture);
    d!(residual_posture);
    None
}

/// `same_evidence` = no checkpoint was added to the worldline between the two reads; otherwise the
/// witness basis (how the reading is evidenced) may lawfully switch to checkpoint-plus-tail.
pub fn diff_optic(a: &OpticReading, b: &OpticReading, same_evidence: bool) -> Option<&'static str> {
    if a.payload != b.payload {
        return Some("payload");
    }
    if let Some(f) = diff_envelope(&a.envelope, &b.envelope) {
        return Some(f);
    }
    if a.retained != b.retained {
        return Some("retained");
    }
    let (x, y) = (&a.read_identity, &b.read_identity);
    macro_rules! d {
        ($f:ident) => {
            if x.$f != y.$f {
                return Some(concat!("read_identity.", stringify!($f)));
            }
        };
    }
    d!(optic_id);
    d!(focus_digest);
    d!(coordinate);
    d!(aperture_digest);
    d!(projection_version);
    d!(reducer_version);
    d!(rights_posture);
    d!(budget_posture);
    d!(residual_posture);
    if same_evidence {
        d!(witness_basis);
        d!(read_identity_hash);
    }
    None
}

// ---------------------------------------------------------------------------
// observe_optic
// ---------------------------------------------------------------------------

/// The worldline coordinate an optic request names, when it names one the bridge documents as supported.
pub fn optic_target(req: &ObserveOpticRequest) -> Option<(WorldlineId, ObservationAt, Option<ProvenanceRef>)> {
    let (OpticFocus::Worldline { worldline_id: f }, EchoCoordinate::Worldline { worldline_id, at }) = (&req.focus, &req.coordinate) else { return None };
    if f != worldline_id {
        return None;
    }
    match at {
        CoordinateAt::Frontier => Some((*worldline_id, ObservationAt::Frontier, None)),
        CoordinateAt::Tick(t) => Some((*worldline_id, ObservationAt::Tick(*t), None)),
        CoordinateAt::Provenance(r) if r.worldline_id == *worldline_id => Some((*worldline_id, ObservationAt::Tick(r.worldline_tick), Some(*r))),
        CoordinateAt::Provenance(_) => None,
    }
}

pub fn optic_is_historical(req: &ObserveOpticRequest) -> bool {
    matches!(&req.coordinate, EchoCoordinate::Worldline { at: CoordinateAt::Tick(_) | CoordinateAt::Provenance(_), .. })
}

/// Hard reasons why an optic request cannot yield a reading.
pub fn optic_reasons(req: &ObserveOpticRequest, t: &Truth) -> Vec<&'static str> {
    let mut r = Vec::new();
    let b = &req.aperture.budget;
    match b.max_bytes {
        None | Some(0) => r.push("budget"),
        Some(m) => match &req.aperture.shape {
            OpticApertureShape::Head | OpticApertureShape::SnapshotMetadata if m < 128 => r.push("budget"),
            OpticApertureShape::ByteRange { len, .. } if *len > m => r.push("budget"),
            _ => {}
        },
    }
    if b.max_ticks == Some(0) {
        // every reading carries one witness ref
        r.push("budget");
    }
    if matches!(req.focus, OpticFocus::AttachmentBoundary { .. }) {
        r.push("attachment");
    }
    if !matches!((&req.focus, &req.coordinate), (OpticFocus::Worldline { .. }, EchoCoordinate::Worldline { .. })) {
        r.push("unsupported_subject");
    } else if optic_target(req).is_none() {
        r.push("conflicting");
    }
    if !matches!(req.aperture.shape, OpticApertureShape::Head | OpticApertureShape::SnapshotMetadata) {
        r.push("unsupported_aperture");
    }
    if let Some((wl, at, prov)) = optic_target(req) {
        match wl_index(&wl).and_then(|w| t.len(w).map(|l| (w, l))) {
            None => r.push("unknown_worldline"),
            Some((w, len)) => {
                if let ObservationAt::Tick(tick) = at {
                    if tick.as_u64() >= len {
                        r.push("future_tick");
                    } else if let (Some(p), Some(f)) = (prov, t.fact(w, tick.as_u64())) {
                        if p.commit_hash != f.commit_hash {
                            r.push("provenance_mismatch");
                        }
                    }
                }
            }
        }
    }
    r
}

pub fn check_optic(req: &ObserveOpticRequest, res: &warp_core::ObserveOpticResult, t: &Truth, empty_root: Option<H>) -> Result<(), V> {
    let reasons = optic_reasons(req, t);
    match res {
        warp_core::ObserveOpticResult::Obstructed(o) => check_obstruction(req, o, &reasons, t),
        warp_core::ObserveOpticResult::Reading(rd) => {
            if let Some(r) = reasons.first() {
                let class = match *r {
                    "unknown_worldline" => "unknown_worldline_served".to_owned(),
                    "future_tick" => "future_tick_served".to_owned(),
                    "provenance_mismatch" => "provenance_coordinate_mismatch_served".to_owned(),
                    "budget" => "budget_exceeded_served".to_owned(),
                    other => format!("optic_obstruction_expected:{other}"),
                };
                return Err(v(class, format!("optic request {req:?} cannot be served ({reasons:?}) but returned a reading: payload {:?} identity {:?}", rd.payload, rd.read_identity)));
            }
            let Some((wl_id_, at, _)) = optic_target(req) else { return Err(v("optic_obstruction_expected:unsupported_subject", format!("{req:?}"))) };
            let Some(wl) = wl_index(&wl_id_) else { return Err(v("unknown_worldline_served", format!("{req:?}"))) };
            let facts = t.wls.get(&wl).map(Vec::as_slice).unwrap_or(&[]);
            let Some(cf) = coord_facts(ObservationFrame::CommitBoundary, at, facts) else { return Err(v("future_tick_served", format!("{req:?}"))) };
            let p = prefix(cf.frontier);
            let projection = match req.aperture.shape {
                OpticApertureShape::Head => ObservationProjection::Head,
                _ => ObservationProjection::Snapshot,
            };
            let budget = ObservationReadBudget::Bounded { max_payload_bytes: req.aperture.budget.max_bytes.unwrap_or(0), max_witness_refs: req.aperture.budget.max_ticks.unwrap_or(u64::MAX) };
            let exp = Expected { wl: wl_id_, is_child: wl == CHILD_WL, facts: cf.clone(), frame: ObservationFrame::CommitBoundary, projection: &projection, budget, empty_root };
            check_reading(&exp, &rd.payload, &rd.envelope)?;
            let id = &rd.read_identity;
            if id.optic_id != req.optic_id
                || id.coordinate != req.coordinate
                || id.projection_version != req.projection_version
                || id.reducer_version != req.reducer_version
                || id.focus_digest != req.focus.digest()
                || id.aperture_digest != req.aperture.digest()
            {
                return Err(v(format!("{p}:read_identity.question"), format!("identity {id:?} does not name the request {req:?}")));
            }
            if id.rights_posture != rd.envelope.rights_posture || id.budget_posture != rd.envelope.budget_posture || id.residual_posture != rd.envelope.residual_posture {
                return Err(v(format!("{p}:read_identity.postures"), format!("{id:?} vs envelope {:?}", rd.envelope)));
            }
            match (&id.witness_basis, &cf.fact, cf.witness_tick) {
                (WitnessBasis::ResolvedCommit { reference, state_root, commit_hash }, Some(f), Some(wt)) => {
                    if reference.worldline_id != wl_id_ || reference.worldline_tick.as_u64() != wt || reference.commit_hash != f.commit_hash || *state_root != f.state_root || *commit_hash != f.commit_hash {
                        return Err(v(format!("{p}:read_identity.witness_basis"), format!("{:?}; history recorded tick {wt} root {} commit {}", id.witness_basis, hex::encode(f.state_root), hex::encode(f.commit_hash))));
                    }
                }
                (WitnessBasis::CheckpointPlusTail { checkpoint_ref, tail_witness_refs, .. }, Some(_), Some(_)) => {
                    if t.ckpt_epoch(wl) == 0 {
                        return Err(v(format!("{p}:read_identity.witness_basis"), "checkpoint-plus-tail basis although no checkpoint was ever taken"));
                    }
                    // every named ref must be a commit of this worldline's recorded history
                    for r in std::iter::once(checkpoint_ref).chain(tail_witness_refs.iter()) {
                        let ok = r.worldline_id == wl_id_ && t.fact(wl, r.worldline_tick.as_u64()).is_some_and(|f| f.commit_hash == r.commit_hash);
                        if !ok {
                            return Err(v(format!("{p}:read_identity.witness_basis"), format!("witness ref {r:?} is not a commit of the recorded history")));
                        }
                    }
                }
                (WitnessBasis::WitnessSet { refs, .. }, None, None) if *refs == rd.envelope.witness_refs => {}
                (other, _, _) => return Err(v(format!("{p}:read_identity.witness_basis"), format!("{other:?} for coordinate facts {cf:?}"))),
            }
            Ok(())
        }
    }
}

fn check_obstruction(req: &ObserveOpticRequest, o: &OpticObstruction, reasons: &[&'static str], t: &Truth) -> Result<(), V> {
    let has = |r: &str| reasons.contains(&r);
    let wl = optic_target(req).and_then(|(w, _, _)| wl_index(&w));
    let justified = match o.kind {
        // exact payload sizes are the codec's business: a small byte budget may lawfully be exceeded
        OpticObstructionKind::BudgetExceeded => has("budget") || has("attachment") || req.aperture.budget.max_bytes.is_some_and(|m| m < 512),
        OpticObstructionKind::MissingWitness => has("unknown_worldline") || has("future_tick") || has("provenance_mismatch") || wl == Some(CHILD_WL),
        OpticObstructionKind::UnsupportedAperture => has("unsupported_aperture") || has("attachment"),
        OpticObstructionKind::UnsupportedProjectionLaw => has("unsupported_subject") || matches!(req.aperture.shape, OpticApertureShape::QueryBytes { .. }),
        OpticObstructionKind::ConflictingFrontier => has("conflicting") || has("provenance_mismatch"),
        OpticObstructionKind::AttachmentDescentRequired | OpticObstructionKind::AttachmentDescentDenied => has("attachment"),
        OpticObstructionKind::LiveTailRequiresReduction => wl.is_some_and(|w| t.ckpt_epoch(w) > 0) && req.aperture.budget.max_ticks.is_some(),
        _ => false,
    };
    if !justified {
        return Err(v(format!("unjustified_obstruction:{}", obstruction_kind(o.kind)), format!("optic request {req:?} obstructed with {o:?}; request/history give only {reasons:?}")));
    }
    if o.optic_id != Some(req.optic_id) || o.focus.as_ref() != Some(&req.focus) || o.coordinate.as_ref() != Some(&req.coordinate) {
        return Err(v(format!("typed_error_names_other_coordinate:{}", obstruction_kind(o.kind)), format!("{o:?} for {req:?}")));
    }
    Ok(())
}
