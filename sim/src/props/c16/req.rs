//! Request shapes as plain serde data, their translation to the real request types, and the
//! data-driven contract query observer that is installed on the engine.

use serde::{Deserialize, Serialize};
use warp_core::{
    make_strand_id, AttachmentDescentPolicy, AttachmentKey, AuthoredObserverPlan, BraidId, BuiltinObserverPlan, ContractQueryObserver,
    ContractQueryObserverError, ContractQueryObserverResult, CoordinateAt, EchoCoordinate, NodeKey, ObservationAt, ObservationCoordinate,
    ObservationFrame, ObservationProjection, ObservationReadBudget, ObservationRequest, ObservationRights, ObserveOpticRequest,
    ObserverInstanceId, ObserverInstanceRef, ObserverPlanId, OpticAperture, OpticApertureShape, OpticCapabilityId, OpticFocus, OpticId,
    OpticReadBudget, ProjectionVersion, ProvenanceRef, ReadingObserverPlan, ReducerVersion, RetainedReadingKey, StrandId, TypeId,
    WorldlineState, WorldlineTick,
};

use crate::model::refstate::{abs, RefAtt, RefState};
use crate::world::ids;
use crate::world::runtime::wl_id;

/// Worldline index used for the forked child (unknown until the fork happens).
pub const CHILD_WL: u8 = 3;
/// Worldline index that is never registered.
pub const UNKNOWN_WL: u8 = 7;
/// Query id handled by the installed observer / a query id nobody handles.
pub const QUERY_ID: u32 = 0x1601;
pub const QUERY_ID_MISSING: u32 = 0x1602;

#[derive(Clone, Debug, Serialize, Deserialize, PartialEq, Eq)]
pub enum AtSpec {
    Frontier,
    Tick(u64),
}

#[derive(Clone, Debug, Serialize, Deserialize, PartialEq, Eq)]
pub enum ProjSpec {
    Head,
    Snapshot,
    Truth { channels: Option<Vec<u8>> },
    Query { installed: bool, vars: Vec<u8> },
}

#[derive(Clone, Debug, Serialize, Deserialize, PartialEq, Eq)]
pub enum PlanSpec {
    /// the builtin plan that belongs to the projection
    Auto,
    Builtin(u8),
    AuthoredInstalled,
    AuthoredOther,
}

#[derive(Clone, Debug, Serialize, Deserialize, PartialEq, Eq)]
pub enum BudgetSpec {
    Unbounded,
    Bounded { max_payload: u64, max_wit: u64 },
}

#[derive(Clone, Debug, Serialize, Deserialize, PartialEq, Eq)]
pub struct ObsSpec {
    pub wl: u8,
    pub at: AtSpec,
    /// 0 CommitBoundary, 1 RecordedTruth, 2 QueryView
    pub frame: u8,
    pub proj: ProjSpec,
    pub plan: PlanSpec,
    pub instance: bool,
    pub budget: BudgetSpec,
    pub cap: Option<u8>,
}

#[derive(Clone, Debug, Serialize, Deserialize, PartialEq, Eq)]
pub enum FocusSpec {
    Worldline(u8),
    Strand,
    Braid,
    Retained,
    Attachment,
}

#[derive(Clone, Debug, Serialize, Deserialize, PartialEq, Eq)]
pub enum OAt {
    Frontier,
    Tick(u64),
    /// full provenance coordinate; `true_hash` = carry the commit hash the history recorded for
    /// (wl, tick) when the request is first issued (if nothing is recorded there yet the request is
    /// asked once and not re-issued); otherwise a hash no commit has
    Prov { wl: u8, tick: u64, true_hash: bool },
}

#[derive(Clone, Debug, Serialize, Deserialize, PartialEq, Eq)]
pub enum CoordSpec {
    Worldline { wl: u8, at: OAt },
    Strand { at: OAt },
    Braid,
    Retained,
}

#[derive(Clone, Debug, Serialize, Deserialize, PartialEq, Eq)]
pub enum ShapeSpec {
    Head,
    Snapshot,
    Truth,
    Query,
    ByteRange { start: u64, len: u64 },
    Attachment,
}

#[derive(Clone, Debug, Serialize, Deserialize, PartialEq, Eq)]
pub struct OpticSpec {
    pub focus: FocusSpec,
    pub coord: CoordSpec,
    pub shape: ShapeSpec,
    pub max_bytes: Option<u64>,
    pub max_nodes: Option<u64>,
    pub max_ticks: Option<u64>,
    pub max_attachments: Option<u64>,
    pub explicit_descent: bool,
    pub proj_ver: u32,
    pub reducer: Option<u32>,
    pub cap: u8,
    pub optic: u8,
}

#[derive(Clone, Debug, Serialize, Deserialize, PartialEq, Eq)]
pub enum Read {
    Obs(ObsSpec),
    Optic(OpticSpec),
}

impl Read {
    /// Worldline indices the read names (used by the shrinker when a worldline is dropped).
    pub fn names_wl(&self, wl: u8) -> bool {
        match self {
            Read::Obs(o) => o.wl == wl,
            Read::Optic(o) => {
                let f = matches!(o.focus, FocusSpec::Worldline(x) if x == wl);
                let c = match &o.coord {
                    CoordSpec::Worldline { wl: x, at } => *x == wl || matches!(at, OAt::Prov { wl: y, .. } if *y == wl),
                    _ => false,
                };
                f || c
            }
        }
    }
}

pub fn frame_of(i: u8) -> ObservationFrame {
    match i % 3 {
        0 => ObservationFrame::CommitBoundary,
        1 => ObservationFrame::RecordedTruth,
        _ => ObservationFrame::QueryView,
    }
}

pub fn frame_name(f: ObservationFrame) -> &'static str {
    match f {
        ObservationFrame::CommitBoundary => "commit_boundary",
        ObservationFrame::RecordedTruth => "recorded_truth",
        ObservationFrame::QueryView => "query_view",
    }
}

pub fn proj_name(p: &ObservationProjection) -> &'static str {
    match p {
        ObservationProjection::Head => "head",
        ObservationProjection::Snapshot => "snapshot",
        ObservationProjection::TruthChannels { .. } => "truth_channels",
        ObservationProjection::Query { .. } => "query",
    }
}

pub fn builtin_plan(i: u8) -> BuiltinObserverPlan {
    match i % 4 {
        0 => BuiltinObserverPlan::CommitBoundaryHead,
        1 => BuiltinObserverPlan::CommitBoundarySnapshot,
        2 => BuiltinObserverPlan::RecordedTruthChannels,
        _ => BuiltinObserverPlan::QueryBytes,
    }
}

/// The builtin plan the documentation assigns to a projection kind.
pub fn natural_plan(p: &ObservationProjection) -> BuiltinObserverPlan {
    match p {
        ObservationProjection::Head => BuiltinObserverPlan::CommitBoundaryHead,
        ObservationProjection::Snapshot => BuiltinObserverPlan::CommitBoundarySnapshot,
        ObservationProjection::TruthChannels { .. } => BuiltinObserverPlan::RecordedTruthChannels,
        ObservationProjection::Query { .. } => BuiltinObserverPlan::QueryBytes,
    }
}

fn authored(seed: u8) -> AuthoredObserverPlan {
    AuthoredObserverPlan {
        plan_id: ObserverPlanId::from_bytes([seed; 32]),
        artifact_hash: [seed.wrapping_add(1); 32],
        schema_hash: [seed.wrapping_add(2); 32],
        state_schema_hash: [seed.wrapping_add(3); 32],
        update_law_hash: [seed.wrapping_add(4); 32],
        emission_law_hash: [seed.wrapping_add(5); 32],
    }
}

pub fn installed_plan() -> AuthoredObserverPlan {
    authored(0x61)
}

pub fn other_plan() -> AuthoredObserverPlan {
    authored(0x71)
}

pub fn channel(i: u8) -> TypeId {
    TypeId([0xC0 ^ i; 32])
}

pub fn strand_id() -> StrandId {
    make_strand_id("verif/c16-strand")
}

pub fn obs_request(s: &ObsSpec) -> ObservationRequest {
    let projection = match &s.proj {
        ProjSpec::Head => ObservationProjection::Head,
        ProjSpec::Snapshot => ObservationProjection::Snapshot,
        ProjSpec::Truth { channels } => ObservationProjection::TruthChannels { channels: channels.as_ref().map(|c| c.iter().map(|i| channel(*i)).collect()) },
        ProjSpec::Query { installed, vars } => ObservationProjection::Query { query_id: if *installed { QUERY_ID } else { QUERY_ID_MISSING }, vars_bytes: vars.clone() },
    };
    let observer_plan = match &s.plan {
        PlanSpec::Auto => ReadingObserverPlan::Builtin { plan: natural_plan(&projection) },
        PlanSpec::Builtin(k) => ReadingObserverPlan::Builtin { plan: builtin_plan(*k) },
        PlanSpec::AuthoredInstalled => ReadingObserverPlan::Authored { plan: Box::new(installed_plan()) },
        PlanSpec::AuthoredOther => ReadingObserverPlan::Authored { plan: Box::new(other_plan()) },
    };
    ObservationRequest {
        coordinate: ObservationCoordinate {
            worldline_id: wl_id(s.wl),
            at: match s.at {
                AtSpec::Frontier => ObservationAt::Frontier,
                AtSpec::Tick(t) => ObservationAt::Tick(WorldlineTick::from_raw(t)),
            },
        },
        frame: frame_of(s.frame),
        projection,
        observer_plan,
        observer_instance: if s.instance {
            Some(ObserverInstanceRef { instance_id: ObserverInstanceId::from_bytes([0x11; 32]), plan_id: ObserverPlanId::from_bytes([0x61; 32]), state_hash: [0x12; 32] })
        } else {
            None
        },
        budget: match s.budget {
            BudgetSpec::Unbounded => ObservationReadBudget::UnboundedOneShot,
            BudgetSpec::Bounded { max_payload, max_wit } => ObservationReadBudget::Bounded { max_payload_bytes: max_payload, max_witness_refs: max_wit },
        },
        rights: match s.cap {
            None => ObservationRights::KernelPublic,
            Some(c) => ObservationRights::CapabilityScoped { capability: OpticCapabilityId::from_bytes([c; 32]) },
        },
    }
}

/// True when the spec asks for "the recorded commit hash" of a coordinate nothing is recorded for yet:
/// such a request has no stable meaning later and is not re-issued.
pub fn prov_unanchored(s: &OpticSpec, recorded: &dyn Fn(u8, u64) -> Option<[u8; 32]>) -> bool {
    let at = match &s.coord {
        CoordSpec::Worldline { at, .. } | CoordSpec::Strand { at } => at,
        _ => return false,
    };
    matches!(at, OAt::Prov { wl, tick, true_hash: true } if recorded(*wl, *tick).is_none())
}

/// `recorded(wl, tick)` = commit hash the history holds for that coordinate right now.
pub fn optic_request(s: &OpticSpec, recorded: &dyn Fn(u8, u64) -> Option<[u8; 32]>) -> ObserveOpticRequest {
    let at = |a: &OAt| match a {
        OAt::Frontier => CoordinateAt::Frontier,
        OAt::Tick(t) => CoordinateAt::Tick(WorldlineTick::from_raw(*t)),
        OAt::Prov { wl, tick, true_hash } => {
            let commit_hash = match (recorded(*wl, *tick), *true_hash) {
                (Some(h), true) => h,
                (Some(mut h), false) => {
                    h[0] ^= 0x80;
                    h[31] ^= 0x01;
                    h
                }
                (None, _) => [0x5A; 32],
            };
            CoordinateAt::Provenance(ProvenanceRef { worldline_id: wl_id(*wl), worldline_tick: WorldlineTick::from_raw(*tick), commit_hash })
        }
    };
    let focus = match &s.focus {
        FocusSpec::Worldline(w) => OpticFocus::Worldline { worldline_id: wl_id(*w) },
        FocusSpec::Strand => OpticFocus::Strand { strand_id: strand_id() },
        FocusSpec::Braid => OpticFocus::Braid { braid_id: BraidId::from_bytes([0xB1; 32]) },
        FocusSpec::Retained => OpticFocus::RetainedReading { key: RetainedReadingKey::from_bytes([0xB2; 32]) },
        FocusSpec::Attachment => OpticFocus::AttachmentBoundary { key: AttachmentKey::node_alpha(NodeKey { warp_id: ids::warp(0), local_id: ids::node(0) }) },
    };
    let coordinate = match &s.coord {
        CoordSpec::Worldline { wl, at: a } => EchoCoordinate::Worldline { worldline_id: wl_id(*wl), at: at(a) },
        CoordSpec::Strand { at: a } => EchoCoordinate::Strand { strand_id: strand_id(), at: at(a), parent_basis: None },
        CoordSpec::Braid => EchoCoordinate::Braid { braid_id: BraidId::from_bytes([0xB1; 32]), projection_digest: [0xB3; 32], member_count: 2 },
        CoordSpec::Retained => EchoCoordinate::RetainedReading { key: RetainedReadingKey::from_bytes([0xB2; 32]) },
    };
    let shape = match &s.shape {
        ShapeSpec::Head => OpticApertureShape::Head,
        ShapeSpec::Snapshot => OpticApertureShape::SnapshotMetadata,
        ShapeSpec::Truth => OpticApertureShape::TruthChannels { channels: None },
        ShapeSpec::Query => OpticApertureShape::QueryBytes { query_id: QUERY_ID, vars_digest: [0xB4; 32] },
        ShapeSpec::ByteRange { start, len } => OpticApertureShape::ByteRange { start: *start, len: *len },
        ShapeSpec::Attachment => OpticApertureShape::AttachmentBoundary,
    };
    ObserveOpticRequest {
        optic_id: OpticId::from_bytes([0xD0 ^ s.optic; 32]),
        focus,
        coordinate,
        aperture: OpticAperture {
            shape,
            budget: OpticReadBudget { max_bytes: s.max_bytes, max_nodes: s.max_nodes, max_ticks: s.max_ticks, max_attachments: s.max_attachments },
            attachment_descent: if s.explicit_descent { AttachmentDescentPolicy::Explicit } else { AttachmentDescentPolicy::BoundaryOnly },
        },
        projection_version: ProjectionVersion::from_raw(s.proj_ver),
        reducer_version: s.reducer.map(ReducerVersion::from_raw),
        capability: OpticCapabilityId::from_bytes([s.cap; 32]),
    }
}

// ---------------------------------------------------------------------------
// Query observer (application stub): vars = [mode, node index]
//   mode 0 complete, 1 residual, 2 fails; anything else / wrong length = invalid vars.
// It answers from the state AT THE RESOLVED COORDINATE (frontier state, or the state replayed from
// provenance for an explicit tick): tick, state root, and the attachment of data node n in W0.
// ---------------------------------------------------------------------------

pub fn encode_answer(mode: u8, tick: u64, state_root: &[u8; 32], state: &RefState, n: u8) -> Vec<u8> {
    let mut out = vec![mode];
    out.extend_from_slice(&tick.to_le_bytes());
    out.extend_from_slice(state_root);
    let inst = state.inst.get(&ids::warp(0).0);
    let node = ids::node(n).0;
    out.push(u8::from(inst.is_some_and(|i| i.nodes.contains_key(&node))));
    match inst.and_then(|i| i.node_att.get(&node)) {
        None => out.push(0),
        Some(RefAtt::Atom { ty, bytes }) => {
            out.push(1);
            out.extend_from_slice(ty);
            out.extend_from_slice(&(bytes.len() as u32).to_le_bytes());
            out.extend_from_slice(bytes);
        }
        Some(RefAtt::Descend(w)) => {
            out.push(2);
            out.extend_from_slice(w);
        }
    }
    out
}

pub fn answer_from_state(mode: u8, tick: u64, state: &WorldlineState, n: u8) -> Vec<u8> {
    let warps = (0..ids::N_WARPS).map(ids::warp).collect::<Vec<_>>();
    encode_answer(mode, tick, &state.state_root(), &abs(state.warp_state(), &warps), n)
}

/// What the vars ask for: Ok((mode, node)) or the failure the observer reports.
pub fn parse_vars(vars: &[u8]) -> Result<(u8, u8), &'static str> {
    if vars.len() != 2 {
        return Err("invalid");
    }
    if vars[0] == 2 {
        return Err("failed");
    }
    if vars[0] > 2 || vars[1] >= ids::N_NODES {
        return Err("invalid");
    }
    Ok((vars[0], vars[1]))
}

pub fn query_observer() -> ContractQueryObserver {
    ContractQueryObserver::new(QUERY_ID, installed_plan(), |ctx| {
        let q = ctx.query_id;
        let (mode, n) = match parse_vars(ctx.vars_bytes) {
            Ok(v) => v,
            Err("failed") => return Err(ContractQueryObserverError::failed(q, "requested failure")),
            Err(_) => return Err(ContractQueryObserverError::invalid_vars(q, "vars must be [mode<=2, node<8]")),
        };
        let wl = ctx.resolved.worldline_id;
        let frontier = ctx.runtime.worldlines().get(&wl).ok_or_else(|| ContractQueryObserverError::failed(q, "worldline vanished"))?;
        let tick = ctx.resolved.resolved_worldline_tick.as_u64();
        let bytes = match ctx.resolved.requested_at {
            ObservationAt::Frontier => answer_from_state(mode, tick, frontier.state(), n),
            ObservationAt::Tick(t) => {
                let target = t.checked_increment().ok_or_else(|| ContractQueryObserverError::failed(q, "tick overflow"))?;
                let st = ctx.provenance.replay_worldline_state_at(wl, frontier.state(), target).map_err(|e| ContractQueryObserverError::failed(q, format!("replay: {e:?}")))?;
                answer_from_state(mode, tick, &st, n)
            }
        };
        Ok(if mode == 1 { ContractQueryObserverResult::residual(bytes) } else { ContractQueryObserverResult::complete(bytes) })
    })
}
