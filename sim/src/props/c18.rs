//! C18 — materialized output is independent of emission order.
//!
//! Sim: a set of emissions (unique (channel, key)) is *delivered* to a real
//! `MaterializationBus` in K seeded orders, with duplicate deliveries injected at
//! seeded positions (fault kind `duplicate_emission`), and through a real `Engine`
//! commit. Oracle: K-way equality + an independent reference bus (`RefBus`).

use std::collections::BTreeMap;

use serde::{Deserialize, Serialize};
use warp_core::materialization::{
    encode_frames, encode_v2_packet, make_channel_id, ChannelId, ChannelPolicy, EmitKey, MaterializationBus,
    MaterializationFrame, ReduceOp, V2Entry, V2PacketHeader,
};
use warp_core::{compute_emissions_digest, make_node_id, make_type_id, Engine, EngineBuilder, GraphStore, NodeRecord};

use crate::ensure;
use crate::kernel::{Outcome, PropertySpec, Rng, RunCtx, Scenario, Tier};

pub const SPEC: PropertySpec = PropertySpec {
    id: "C18",
    level: "exploration",
    rule: "scenario = channel policies + emission set with unequal-length payloads + K delivery orders (<=7 emissions: orders drawn without replacement) + duplicate deliveries + re-keying plan; non-trivial = >=2 emissions on one channel and >=2 distinct orders; distinct = hash of (policies, emission set)",
    quick_runs: 600_000,
    thorough_runs: 3_000_000,
    real_components: &["warp_core::materialization::MaterializationBus", "ReduceOp", "compute_emissions_digest", "encode_frames", "encode_v2_packet", "Engine::commit (materialization finalize path)"],
    stub_components: &[],
    assumptions: &["emission producers are modelled as a delivery order over a fixed emission set; the bus is single-threaded by construction (RefCell, !Sync)"],
    fault_kinds: &["fault.duplicate_emission"],
};

#[derive(Clone, Debug, Serialize, Deserialize, PartialEq, Eq)]
pub enum Pol {
    Log,
    Strict,
    Sum,
    Max,
    Min,
    BitOr,
    BitAnd,
    First,
    Last,
    Concat,
}

impl Pol {
    fn all() -> [Pol; 10] {
        [Pol::Log, Pol::Strict, Pol::Sum, Pol::Max, Pol::Min, Pol::BitOr, Pol::BitAnd, Pol::First, Pol::Last, Pol::Concat]
    }
    fn real(&self) -> ChannelPolicy {
        match self {
            Pol::Log => ChannelPolicy::Log,
            Pol::Strict => ChannelPolicy::StrictSingle,
            Pol::Sum => ChannelPolicy::Reduce(ReduceOp::Sum),
            Pol::Max => ChannelPolicy::Reduce(ReduceOp::Max),
            Pol::Min => ChannelPolicy::Reduce(ReduceOp::Min),
            Pol::BitOr => ChannelPolicy::Reduce(ReduceOp::BitOr),
            Pol::BitAnd => ChannelPolicy::Reduce(ReduceOp::BitAnd),
            Pol::First => ChannelPolicy::Reduce(ReduceOp::First),
            Pol::Last => ChannelPolicy::Reduce(ReduceOp::Last),
            Pol::Concat => ChannelPolicy::Reduce(ReduceOp::Concat),
        }
    }
    fn commutative(&self) -> bool {
        matches!(self, Pol::Sum | Pol::Max | Pol::Min | Pol::BitOr | Pol::BitAnd)
    }
}

#[derive(Clone, Debug, Serialize, Deserialize, PartialEq, Eq)]
pub struct Emission {
    pub channel: u8,
    /// Key = (scope byte pattern, rule id, subkey); scope hash is crafted so that keys share prefixes.
    pub scope: [u8; 4],
    pub rule: u32,
    pub subkey: u32,
    pub data: Vec<u8>,
}

#[derive(Clone, Debug, Serialize, Deserialize)]
pub struct C18 {
    /// policy per channel index; `None` = unregistered (defaults to Log).
    pub policies: Vec<Option<Pol>>,
    pub emissions: Vec<Emission>,
    /// Delivery orders: each is a list of indices into `emissions`; an index appearing a second time is a duplicate delivery.
    pub orders: Vec<Vec<usize>>,
    /// Re-keying: permutation applied to the keys (data stays, keys move) per channel, for commutative reducers.
    pub rekey: Vec<usize>,
    pub via_engine: bool,
}

fn scope_hash(s: &[u8; 4]) -> [u8; 32] {
    // Long shared prefix; the distinguishing bytes sit at positions 0, 15, 30, 31.
    let mut h = [0x55u8; 32];
    h[0] = s[0];
    h[15] = s[1];
    h[30] = s[2];
    h[31] = s[3];
    h
}

fn key_of(e: &Emission) -> EmitKey {
    EmitKey::with_subkey(scope_hash(&e.scope), e.rule, e.subkey)
}

fn chan(i: u8) -> ChannelId {
    make_channel_id(&format!("verif/c18/ch{i}"))
}

fn gen_data(rng: &mut Rng) -> Vec<u8> {
    let len = match rng.below(10) {
        0 => 0,
        1 => 1,
        2 => 7,
        3 => 8,
        4 => 9,
        _ => rng.urange(0, 12),
    };
    // small alphabet so that equal prefixes / equal values are common
    (0..len).map(|_| *rng.pick(&[0u8, 1, 0x7f, 0x80, 0xff, 3])).collect()
}

impl Scenario for C18 {
    fn generate(rng: &mut Rng, tier: Tier, _avoid: bool) -> Self {
        let nch = rng.urange(1, 4);
        let policies: Vec<Option<Pol>> = (0..nch)
            .map(|_| if rng.chance(1, 8) { None } else { Some(rng.pick(&Pol::all()).clone()) })
            .collect();
        let max_em = if tier == Tier::Thorough && rng.chance(1, 4) { 24 } else { 7 };
        let n = rng.urange(0, max_em);
        let mut emissions: Vec<Emission> = Vec::new();
        let mut guard = 0;
        while emissions.len() < n && guard < 200 {
            guard += 1;
            let e = Emission {
                channel: rng.below(nch as u64) as u8,
                scope: [rng.below(2) as u8, rng.below(2) as u8, rng.below(3) as u8, rng.below(3) as u8],
                rule: rng.below(3) as u32,
                subkey: *rng.pick(&[0u32, 1, 0x100, 0x0100_0000, u32::MAX]),
                data: gen_data(rng),
            };
            if emissions.iter().any(|x| x.channel == e.channel && key_of(x) == key_of(&e)) {
                continue;
            }
            emissions.push(e);
        }
        let n = emissions.len();
        // Orders: canonical, reversed, and random ones; for n <= 7 distinct permutations (without replacement).
        let k = rng.urange(3, 8);
        let mut orders: Vec<Vec<usize>> = Vec::new();
        let id: Vec<usize> = (0..n).collect();
        orders.push(id.clone());
        let mut rev = id.clone();
        rev.reverse();
        if rev != id {
            orders.push(rev);
        }
        let mut tries = 0;
        while orders.len() < k && tries < 50 {
            tries += 1;
            let mut p = id.clone();
            rng.shuffle(&mut p);
            if !orders.contains(&p) {
                orders.push(p);
            }
        }
        // Inject duplicate deliveries (fault) into some orders.
        if n > 0 {
            for o in orders.iter_mut().skip(1) {
                if rng.chance(1, 2) {
                    let dups = rng.urange(1, 3);
                    for _ in 0..dups {
                        // duplicate an emission that is already delivered earlier in this order
                        let pos = rng.urange(1, o.len());
                        let which = o[rng.usize_below(pos)];
                        o.insert(pos, which);
                    }
                }
            }
        }
        let mut rekey: Vec<usize> = (0..n).collect();
        rng.shuffle(&mut rekey);
        C18 {
            policies,
            emissions,
            orders,
            rekey,
            via_engine: rng.chance(1, 4),
        }
    }

    fn execute(&self, ctx: &mut RunCtx) -> Outcome {
        let reference = ref_finalize(&self.policies, &self.emissions);
        let mut first: Option<Observed> = None;
        for (oi, order) in self.orders.iter().enumerate() {
            let obs = match deliver(&self.policies, &self.emissions, order, ctx, false) {
                Ok(o) => o,
                Err(v) => return v,
            };
            ctx.trace(&obs.digest);
            ensure!(
                obs.channels == reference.0,
                "refbus_mismatch:channels",
                "order#{oi} {:?}: bus channels {:?} != reference {:?}",
                order,
                obs.channels,
                reference.0
            );
            ensure!(
                obs.conflicts == reference.1,
                "refbus_mismatch:conflicts",
                "order#{oi}: bus conflicts {:?} != reference {:?}",
                obs.conflicts,
                reference.1
            );
            match &first {
                None => first = Some(obs),
                Some(f) => {
                    ensure!(f.channels == obs.channels && f.conflicts == obs.conflicts, "order_dependent:report", "order#{oi} differs from order#0");
                    ensure!(f.digest == obs.digest, "order_dependent:emissions_digest", "order#{oi} digest differs");
                    ensure!(f.frames == obs.frames, "order_dependent:frames_v1", "order#{oi} frame bytes differ");
                    ensure!(f.packet == obs.packet, "order_dependent:frames_v2", "order#{oi} v2 packet bytes differ");
                }
            }
        }
        // Re-keying invariance for commutative reducers: move payloads to other keys of the same channel.
        let mut rekeyed = self.emissions.clone();
        let mut moved = false;
        for ch in 0..self.policies.len() {
            let commut = self.policies[ch].as_ref().map(Pol::commutative).unwrap_or(false);
            if !commut {
                continue;
            }
            let idx: Vec<usize> = (0..self.emissions.len()).filter(|i| self.emissions[*i].channel as usize == ch).collect();
            if idx.len() < 2 {
                continue;
            }
            // permutation of idx induced by self.rekey
            let mut perm = idx.clone();
            perm.sort_by_key(|i| self.rekey.get(*i).copied().unwrap_or(*i));
            for (slot, src) in idx.iter().zip(perm.iter()) {
                rekeyed[*slot].data = self.emissions[*src].data.clone();
                if slot != src {
                    moved = true;
                }
            }
        }
        if moved {
            ctx.hit("reach.rekeyed_commutative_channel");
            let id: Vec<usize> = (0..rekeyed.len()).collect();
            let obs = match deliver(&self.policies, &rekeyed, &id, ctx, false) {
                Ok(o) => o,
                Err(v) => return v,
            };
            if let Some(f) = &first {
                for (ch, pol) in self.policies.iter().enumerate() {
                    if pol.as_ref().map(Pol::commutative).unwrap_or(false) {
                        let c = chan(ch as u8);
                        let a = f.channels.iter().find(|(k, _)| *k == c.0);
                        let b = obs.channels.iter().find(|(k, _)| *k == c.0);
                        ensure!(a == b, "rekey_dependent", "commutative channel {ch} ({pol:?}) changed under re-keying: {a:?} vs {b:?}");
                    }
                }
            }
        }
        if self.via_engine {
            if let Some(order) = self.orders.last() {
                let obs = match deliver(&self.policies, &self.emissions, order, ctx, true) {
                    Ok(o) => o,
                    Err(v) => return v,
                };
                ctx.hit("reach.via_engine_commit");
                ensure!(obs.channels == reference.0, "engine_materialization_mismatch:channels", "engine last_materialization {:?} != reference {:?}", obs.channels, reference.0);
                ensure!(obs.conflicts == reference.1, "engine_materialization_mismatch:conflicts", "engine errors {:?} != reference {:?}", obs.conflicts, reference.1);
            }
        }
        ctx.count("time.finalizations", self.orders.len() as u64);
        // Non-trivial: at least one channel holds >= 2 emissions and >= 2 distinct orders were run.
        let mut per: BTreeMap<u8, usize> = BTreeMap::new();
        for e in &self.emissions {
            *per.entry(e.channel).or_insert(0) += 1;
        }
        if per.values().any(|c| *c >= 2) && self.orders.len() >= 2 {
            let sig = serde_json::to_vec(&(&self.policies, &self.emissions)).unwrap_or_default();
            ctx.nontrivial(&sig);
        }
        Outcome::Ok
    }

    fn shrink_candidates(&self) -> Vec<Self> {
        let mut out = Vec::new();
        // drop an emission (and remap orders)
        for i in 0..self.emissions.len() {
            let mut s = self.clone();
            s.emissions.remove(i);
            for o in &mut s.orders {
                o.retain(|x| *x != i);
                for x in o.iter_mut() {
                    if *x > i {
                        *x -= 1;
                    }
                }
            }
            s.rekey = (0..s.emissions.len()).collect();
            out.push(s);
        }
        // drop an order
        if self.orders.len() > 1 {
            for i in 0..self.orders.len() {
                let mut s = self.clone();
                s.orders.remove(i);
                out.push(s);
            }
        }
        // shorten payloads
        for i in 0..self.emissions.len() {
            if !self.emissions[i].data.is_empty() {
                let mut s = self.clone();
                s.emissions[i].data.pop();
                out.push(s);
            }
        }
        if self.via_engine {
            let mut s = self.clone();
            s.via_engine = false;
            out.push(s);
        }
        out
    }
}

#[derive(Debug, PartialEq, Eq)]
struct Observed {
    channels: Vec<([u8; 32], Vec<u8>)>,
    conflicts: Vec<([u8; 32], usize)>,
    digest: [u8; 32],
    frames: Vec<u8>,
    packet: Vec<u8>,
}

fn deliver(policies: &[Option<Pol>], emissions: &[Emission], order: &[usize], ctx: &mut RunCtx, via_engine: bool) -> Result<Observed, Outcome> {
    let mut bus = MaterializationBus::new();
    for (i, p) in policies.iter().enumerate() {
        if let Some(p) = p {
            bus.register_channel(chan(i as u8), p.real());
        }
    }
    let mut engine: Option<Engine> = None;
    if via_engine {
        let root = make_node_id("verif/c18/root");
        let mut store = GraphStore::default();
        store.insert_node(root, NodeRecord { ty: make_type_id("verif/root") });
        engine = Some(EngineBuilder::new(store, root).with_materialization_bus(bus).build());
        bus = MaterializationBus::new();
    }
    let busref: &MaterializationBus = match &engine {
        Some(e) => e.materialization_bus(),
        None => &bus,
    };
    let mut seen = vec![false; emissions.len()];
    for &i in order {
        let Some(e) = emissions.get(i) else { continue };
        let r = busref.emit(chan(e.channel), key_of(e), if seen[i] { vec![0xEE; 3] } else { e.data.clone() });
        if seen[i] {
            ctx.hit("fault.duplicate_emission");
            if r.is_ok() {
                return Err(Outcome::violation("duplicate_accepted", format!("second emit of emission #{i} returned Ok")));
            }
        } else if let Err(d) = r {
            return Err(Outcome::violation("fresh_emission_rejected", format!("first emit of #{i} rejected: {d}")));
        }
        seen[i] = true;
    }
    let (channels, errors) = if let Some(e) = engine.as_mut() {
        let tx = e.begin();
        if let Err(err) = e.commit(tx) {
            return Err(Outcome::violation("engine_commit_failed", format!("{err:?}")));
        }
        (e.last_materialization().to_vec(), e.last_materialization_errors().to_vec())
    } else {
        let rep = bus.finalize();
        (rep.channels, rep.errors)
    };
    let digest = compute_emissions_digest(&channels);
    // digest must not depend on the order of the channel list either
    let mut rev = channels.clone();
    rev.reverse();
    if compute_emissions_digest(&rev) != digest {
        return Err(Outcome::violation("order_dependent:digest_channel_order", "digest changes when the finalized channel list is reversed".to_owned()));
    }
    let frames: Vec<MaterializationFrame> = channels.iter().map(|c| MaterializationFrame::new(c.channel, c.data.clone())).collect();
    let frames = encode_frames(&frames);
    let header = V2PacketHeader {
        session_id: [1; 32],
        cursor_id: [2; 32],
        worldline_id: [3; 32],
        warp_id: warp_core::make_warp_id("verif/c18"),
        tick: 7,
        commit_hash: [4; 32],
    };
    let entries: Vec<V2Entry> = channels
        .iter()
        .map(|c| V2Entry {
            channel: c.channel,
            value_hash: warp_core::materialization::compute_value_hash(&c.data),
            value: c.data.clone(),
        })
        .collect();
    let packet = match encode_v2_packet(&header, &entries) {
        Ok(p) => p,
        Err(e) => return Err(Outcome::violation("v2_encode_failed", format!("{e:?}"))),
    };
    Ok(Observed {
        channels: channels.iter().map(|c| (c.channel.0, c.data.clone())).collect(),
        conflicts: errors.iter().map(|c| (c.channel.0, c.emission_count)).collect(),
        digest,
        frames,
        packet,
    })
}

/// Reference bus: per channel, sort emissions by key; Log = u32-LE length-prefixed concat;
/// StrictSingle = conflict if > 1; Reduce = fold in key order with independent reducers.
#[allow(clippy::type_complexity)]
fn ref_finalize(policies: &[Option<Pol>], emissions: &[Emission]) -> (Vec<([u8; 32], Vec<u8>)>, Vec<([u8; 32], usize)>) {
    let mut by_chan: BTreeMap<[u8; 32], (Pol, Vec<(([u8; 32], u32, u32), Vec<u8>)>)> = BTreeMap::new();
    for e in emissions {
        let pol = policies.get(e.channel as usize).cloned().flatten().unwrap_or(Pol::Log);
        by_chan
            .entry(chan(e.channel).0)
            .or_insert_with(|| (pol, Vec::new()))
            .1
            .push(((scope_hash(&e.scope), e.rule, e.subkey), e.data.clone()));
    }
    let mut channels = Vec::new();
    let mut conflicts = Vec::new();
    for (c, (pol, mut ems)) in by_chan {
        ems.sort_by(|a, b| a.0.cmp(&b.0));
        let vals: Vec<Vec<u8>> = ems.into_iter().map(|(_, d)| d).collect();
        let out: Result<Vec<u8>, usize> = match pol {
            Pol::Log => {
                let mut o = Vec::new();
                for v in &vals {
                    o.extend_from_slice(&(v.len() as u32).to_le_bytes());
                    o.extend_from_slice(v);
                }
                Ok(o)
            }
            Pol::Strict => {
                if vals.len() > 1 {
                    Err(vals.len())
                } else {
                    Ok(vals.into_iter().next().unwrap_or_default())
                }
            }
            Pol::Sum => {
                let mut s = 0u64;
                for v in &vals {
                    let mut b = [0u8; 8];
                    for (i, x) in v.iter().take(8).enumerate() {
                        b[i] = *x;
                    }
                    s = s.wrapping_add(u64::from_le_bytes(b));
                }
                Ok(s.to_le_bytes().to_vec())
            }
            Pol::Max => Ok(vals.iter().max().cloned().unwrap_or_default()),
            Pol::Min => Ok(vals.iter().min().cloned().unwrap_or_default()),
            Pol::BitOr => {
                let len = vals.iter().map(Vec::len).max().unwrap_or(0);
                Ok((0..len).map(|i| vals.iter().fold(0u8, |a, v| a | v.get(i).copied().unwrap_or(0))).collect())
            }
            Pol::BitAnd => {
                let len = vals.iter().map(Vec::len).min().unwrap_or(0);
                Ok((0..len).map(|i| vals.iter().fold(0xffu8, |a, v| a & v[i])).collect())
            }
            Pol::First => Ok(vals.first().cloned().unwrap_or_default()),
            Pol::Last => Ok(vals.last().cloned().unwrap_or_default()),
            Pol::Concat => Ok(vals.concat()),
        };
        match out {
            Ok(d) => channels.push((c, d)),
            Err(n) => conflicts.push((c, n)),
        }
    }
    (channels, conflicts)
}
