//! Reference models (independent executable specifications used as oracles).
pub mod refinbox;
pub mod refstate;
