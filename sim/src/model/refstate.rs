//! Reference state and reference op applier, written from docs/spec/warp-tick-patch.md,
//! SPEC-0002 and merkle-commit.md. Plain maps; no storage layout.

use std::collections::{BTreeMap, BTreeSet};

use warp_core::{
    AttachmentKey, AttachmentOwner, AttachmentPlane, AttachmentValue, EdgeKey, NodeKey, PortalInit, WarpId, WarpOp, WarpState,
};

pub type H = [u8; 32];

#[derive(Clone, Debug, PartialEq, Eq, PartialOrd, Ord)]
pub enum RefAtt {
    Atom { ty: H, bytes: Vec<u8> },
    Descend(H),
}

#[derive(Clone, Copy, Debug, PartialEq, Eq, PartialOrd, Ord)]
pub enum RefKey {
    Node(H, H),
    Edge(H, H),
}

#[derive(Clone, Debug, PartialEq, Eq, Default)]
pub struct RefInst {
    pub root: H,
    pub parent: Option<RefKey>,
    pub nodes: BTreeMap<H, H>,
    /// edge id -> (from, to, ty)
    pub edges: BTreeMap<H, (H, H, H)>,
    pub node_att: BTreeMap<H, RefAtt>,
    pub edge_att: BTreeMap<H, RefAtt>,
}

#[derive(Clone, Debug, PartialEq, Eq, Default)]
pub struct RefState {
    pub inst: BTreeMap<H, RefInst>,
}

#[derive(Clone, Debug, PartialEq, Eq)]
pub enum RefErr {
    MissingWarp,
    MissingNode,
    MissingEdge,
    NodeNotIsolated,
    InvalidKey,
    PortalInvariant,
    PortalInitRequired,
}

pub fn att_of(v: &AttachmentValue) -> RefAtt {
    match v {
        AttachmentValue::Atom(a) => RefAtt::Atom {
            ty: a.type_id.0,
            bytes: a.bytes.to_vec(),
        },
        AttachmentValue::Descend(w) => RefAtt::Descend(w.0),
    }
}

pub fn key_of(k: &AttachmentKey) -> Result<RefKey, RefErr> {
    match (k.owner, k.plane) {
        (AttachmentOwner::Node(n), AttachmentPlane::Alpha) => Ok(RefKey::Node(n.warp_id.0, n.local_id.0)),
        (AttachmentOwner::Edge(e), AttachmentPlane::Beta) => Ok(RefKey::Edge(e.warp_id.0, e.local_id.0)),
        _ => Err(RefErr::InvalidKey),
    }
}

/// Abstraction function: extract a RefState through public accessors only, over the given
/// instance ids (WarpState does not expose instance iteration publicly).
pub fn abs(state: &WarpState, warps: &[WarpId]) -> RefState {
    let mut out = RefState::default();
    for w in warps {
        let (Some(inst), Some(store)) = (state.instance(w), state.store(w)) else {
            continue;
        };
        let mut r = RefInst {
            root: inst.root_node.0,
            parent: inst.parent.as_ref().and_then(|k| key_of(k).ok()),
            ..RefInst::default()
        };
        for (id, rec) in store.iter_nodes() {
            r.nodes.insert(id.0, rec.ty.0);
        }
        for (from, edges) in store.iter_edges() {
            for e in edges {
                debug_assert_eq!(*from, e.from);
                r.edges.insert(e.id.0, (e.from.0, e.to.0, e.ty.0));
            }
        }
        for (id, v) in store.iter_node_attachments() {
            r.node_att.insert(id.0, att_of(v));
        }
        for (id, v) in store.iter_edge_attachments() {
            r.edge_att.insert(id.0, att_of(v));
        }
        out.inst.insert(w.0, r);
    }
    out
}

impl RefState {
    fn att(&self, k: &RefKey) -> Option<&RefAtt> {
        match k {
            RefKey::Node(w, n) => self.inst.get(w)?.node_att.get(n),
            RefKey::Edge(w, e) => self.inst.get(w)?.edge_att.get(e),
        }
    }

    fn owner_exists(&self, k: &RefKey) -> Result<(), RefErr> {
        match k {
            RefKey::Node(w, n) => {
                let i = self.inst.get(w).ok_or(RefErr::MissingWarp)?;
                if i.nodes.contains_key(n) {
                    Ok(())
                } else {
                    Err(RefErr::MissingNode)
                }
            }
            RefKey::Edge(w, e) => {
                let i = self.inst.get(w).ok_or(RefErr::MissingWarp)?;
                if i.edges.contains_key(e) {
                    Ok(())
                } else {
                    Err(RefErr::MissingEdge)
                }
            }
        }
    }

    fn set_att(&mut self, k: &RefKey, v: Option<RefAtt>) {
        match k {
            RefKey::Node(w, n) => {
                if let Some(i) = self.inst.get_mut(w) {
                    match v {
                        Some(v) => {
                            i.node_att.insert(*n, v);
                        }
                        None => {
                            i.node_att.remove(n);
                        }
                    }
                }
            }
            RefKey::Edge(w, e) => {
                if let Some(i) = self.inst.get_mut(w) {
                    match v {
                        Some(v) => {
                            i.edge_att.insert(*e, v);
                        }
                        None => {
                            i.edge_att.remove(e);
                        }
                    }
                }
            }
        }
    }

    /// Portal invariants: no orphan instances, no dangling portals.
    pub fn portal_invariants_hold(&self) -> bool {
        for (w, inst) in &self.inst {
            if let Some(p) = &inst.parent {
                if self.owner_exists(p).is_err() {
                    return false;
                }
                if self.att(p) != Some(&RefAtt::Descend(*w)) {
                    return false;
                }
            }
        }
        for (w, inst) in &self.inst {
            for (n, v) in &inst.node_att {
                if let RefAtt::Descend(c) = v {
                    match self.inst.get(c) {
                        Some(ci) if ci.parent == Some(RefKey::Node(*w, *n)) => {}
                        _ => return false,
                    }
                }
            }
            for (e, v) in &inst.edge_att {
                if let RefAtt::Descend(c) = v {
                    match self.inst.get(c) {
                        Some(ci) if ci.parent == Some(RefKey::Edge(*w, *e)) => {}
                        _ => return false,
                    }
                }
            }
        }
        true
    }

    /// Apply one op with the documented semantics.
    pub fn apply_op(&mut self, op: &WarpOp) -> Result<(), RefErr> {
        match op {
            WarpOp::OpenPortal { key, child_warp, child_root, init } => {
                let k = key_of(key)?;
                self.owner_exists(&k)?;
                let cw = child_warp.0;
                let existed = self.inst.contains_key(&cw);
                if let Some(ci) = self.inst.get(&cw) {
                    if ci.parent != Some(k) || ci.root != child_root.0 {
                        return Err(RefErr::PortalInvariant);
                    }
                } else {
                    match init {
                        PortalInit::Empty { root_record } => {
                            let mut ci = RefInst {
                                root: child_root.0,
                                parent: Some(k),
                                ..RefInst::default()
                            };
                            ci.nodes.insert(child_root.0, root_record.ty.0);
                            self.inst.insert(cw, ci);
                        }
                        PortalInit::RequireExisting => return Err(RefErr::PortalInitRequired),
                    }
                }
                if existed {
                    let ci = self.inst.get_mut(&cw).ok_or(RefErr::MissingWarp)?;
                    match init {
                        PortalInit::Empty { root_record } => match ci.nodes.get(&child_root.0) {
                            None => {
                                ci.nodes.insert(child_root.0, root_record.ty.0);
                            }
                            Some(t) if *t == root_record.ty.0 => {}
                            Some(_) => return Err(RefErr::PortalInvariant),
                        },
                        PortalInit::RequireExisting => {
                            if !ci.nodes.contains_key(&child_root.0) {
                                return Err(RefErr::MissingNode);
                            }
                        }
                    }
                }
                self.set_att(&k, Some(RefAtt::Descend(cw)));
                Ok(())
            }
            WarpOp::UpsertWarpInstance { instance } => {
                let parent = match &instance.parent {
                    Some(k) => Some(key_of(k)?),
                    None => None,
                };
                let e = self.inst.entry(instance.warp_id.0).or_default();
                e.root = instance.root_node.0;
                e.parent = parent;
                Ok(())
            }
            WarpOp::DeleteWarpInstance { warp_id } => {
                if self.inst.remove(&warp_id.0).is_none() {
                    return Err(RefErr::MissingWarp);
                }
                Ok(())
            }
            WarpOp::UpsertNode { node, record } => {
                let i = self.inst.get_mut(&node.warp_id.0).ok_or(RefErr::MissingWarp)?;
                i.nodes.insert(node.local_id.0, record.ty.0);
                Ok(())
            }
            WarpOp::DeleteNode { node } => {
                let i = self.inst.get_mut(&node.warp_id.0).ok_or(RefErr::MissingWarp)?;
                let n = node.local_id.0;
                if !i.nodes.contains_key(&n) {
                    return Err(RefErr::MissingNode);
                }
                if i.edges.values().any(|(f, t, _)| *f == n || *t == n) {
                    return Err(RefErr::NodeNotIsolated);
                }
                i.nodes.remove(&n);
                i.node_att.remove(&n);
                Ok(())
            }
            WarpOp::UpsertEdge { warp_id, record } => {
                let i = self.inst.get_mut(&warp_id.0).ok_or(RefErr::MissingWarp)?;
                i.edges.insert(record.id.0, (record.from.0, record.to.0, record.ty.0));
                Ok(())
            }
            WarpOp::DeleteEdge { warp_id, from, edge_id } => {
                let i = self.inst.get_mut(&warp_id.0).ok_or(RefErr::MissingWarp)?;
                match i.edges.get(&edge_id.0) {
                    Some((f, _, _)) if *f == from.0 => {}
                    _ => return Err(RefErr::MissingEdge),
                }
                i.edges.remove(&edge_id.0);
                i.edge_att.remove(&edge_id.0);
                Ok(())
            }
            WarpOp::SetAttachment { key, value } => {
                let k = key_of(key)?;
                self.owner_exists(&k)?;
                self.set_att(&k, value.as_ref().map(att_of));
                Ok(())
            }
        }
    }

    /// Apply ops in the given order, then validate portal invariants (the pre-state is assumed valid,
    /// so validating always is equivalent to validating only when portal topology was touched).
    pub fn apply_ops(&mut self, ops: &[WarpOp]) -> Result<(), RefErr> {
        for op in ops {
            self.apply_op(op)?;
        }
        if !self.portal_invariants_hold() {
            return Err(RefErr::PortalInvariant);
        }
        Ok(())
    }

    /// Content reachable from (root_warp, root_node): nodes via out-edges, instances via Descend
    /// attachments on reachable nodes and on edges leaving reachable nodes.
    pub fn reachable_projection(&self, root_warp: &H, root_node: &H) -> RefState {
        let mut seen_nodes: BTreeSet<(H, H)> = BTreeSet::new();
        let mut seen_warps: BTreeSet<H> = BTreeSet::new();
        let mut stack = vec![(*root_warp, *root_node)];
        while let Some((w, n)) = stack.pop() {
            if !seen_nodes.insert((w, n)) {
                continue;
            }
            seen_warps.insert(w);
            let Some(i) = self.inst.get(&w) else { continue };
            if let Some(RefAtt::Descend(c)) = i.node_att.get(&n) {
                if let Some(ci) = self.inst.get(c) {
                    stack.push((*c, ci.root));
                }
            }
            for (eid, (f, t, _)) in &i.edges {
                if *f == n {
                    stack.push((w, *t));
                    if let Some(RefAtt::Descend(c)) = i.edge_att.get(eid) {
                        if let Some(ci) = self.inst.get(c) {
                            stack.push((*c, ci.root));
                        }
                    }
                }
            }
        }
        let mut out = RefState::default();
        for w in &seen_warps {
            let Some(i) = self.inst.get(w) else { continue };
            let mut r = RefInst {
                root: i.root,
                parent: i.parent,
                ..RefInst::default()
            };
            for (n, t) in &i.nodes {
                if seen_nodes.contains(&(*w, *n)) {
                    r.nodes.insert(*n, *t);
                    if let Some(a) = i.node_att.get(n) {
                        r.node_att.insert(*n, a.clone());
                    }
                }
            }
            for (e, (f, t, ty)) in &i.edges {
                if seen_nodes.contains(&(*w, *f)) {
                    r.edges.insert(*e, (*f, *t, *ty));
                    if let Some(a) = i.edge_att.get(e) {
                        r.edge_att.insert(*e, a.clone());
                    }
                }
            }
            out.inst.insert(*w, r);
        }
        out
    }
}

/// Canonical replay order of ops (spec: open portals, upsert instances, delete instances,
/// delete edges, delete nodes, upsert nodes, upsert edges, set attachments; then by target).
pub fn ref_sort_key(op: &WarpOp) -> (u8, H, H, H) {
    fn att_key(key: &AttachmentKey) -> (H, H, H) {
        let (owner_tag, warp, local) = match key.owner {
            AttachmentOwner::Node(NodeKey { warp_id, local_id }) => (1u8, warp_id.0, local_id.0),
            AttachmentOwner::Edge(EdgeKey { warp_id, local_id }) => (2u8, warp_id.0, local_id.0),
        };
        let plane_tag = match key.plane {
            AttachmentPlane::Alpha => 1u8,
            AttachmentPlane::Beta => 2u8,
        };
        let mut a = [0u8; 32];
        a[0] = owner_tag;
        a[1] = plane_tag;
        (warp, a, local)
    }
    let z = [0u8; 32];
    match op {
        WarpOp::OpenPortal { key, .. } => {
            let (w, a, b) = att_key(key);
            (1, w, a, b)
        }
        WarpOp::UpsertWarpInstance { instance } => (2, instance.warp_id.0, instance.warp_id.0, z),
        WarpOp::DeleteWarpInstance { warp_id } => (3, warp_id.0, warp_id.0, z),
        WarpOp::DeleteEdge { warp_id, from, edge_id } => (4, warp_id.0, from.0, edge_id.0),
        WarpOp::DeleteNode { node } => (5, node.warp_id.0, node.local_id.0, z),
        WarpOp::UpsertNode { node, .. } => (6, node.warp_id.0, node.local_id.0, z),
        WarpOp::UpsertEdge { warp_id, record } => (7, warp_id.0, record.from.0, record.id.0),
        WarpOp::SetAttachment { key, .. } => {
            let (w, a, b) = att_key(key);
            (8, w, a, b)
        }
    }
}

/// Merge emitted ops canonically: sort by key, drop identical duplicates, report divergent ones.
pub fn ref_merge(mut ops: Vec<WarpOp>) -> Result<Vec<WarpOp>, ()> {
    ops.sort_by_key(ref_sort_key);
    let mut out: Vec<WarpOp> = Vec::new();
    for op in ops {
        if let Some(last) = out.last() {
            if ref_sort_key(last) == ref_sort_key(&op) {
                if *last == op {
                    continue;
                }
                return Err(());
            }
        }
        out.push(op);
    }
    Ok(out)
}

pub fn warp_ids(ws: &[H]) -> Vec<WarpId> {
    ws.iter().map(|w| WarpId(*w)).collect()
}
