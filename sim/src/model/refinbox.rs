//! Reference inbox/coordinator model (from docs/spec/canonical-inbox-sequencing.md): per resolved
//! head a pending *set* keyed by ingress id; admitted batch = ascending ingress id truncated by the
//! per-tick budget; an ingress id is committed at most once per head.

use std::collections::{BTreeMap, BTreeSet};

use warp_core::WriterHeadKey;

use crate::world::runtime::{head_key, kind, Intent, PolicySpec, TargetSpec, WorldSpec};

#[derive(Clone, Debug, PartialEq, Eq)]
pub enum RefDisposition {
    Accepted,
    Duplicate,
    RejectedByPolicy,
    Unroutable,
}

#[derive(Clone, Debug)]
pub struct RefHead {
    pub wl: u8,
    pub label: u8,
    pub key: WriterHeadKey,
    pub policy: PolicySpec,
    pub pending: BTreeSet<[u8; 32]>,
    pub committed: BTreeSet<[u8; 32]>,
}

#[derive(Clone, Debug)]
pub struct RefRuntime {
    /// in canonical head order (WriterHeadKey order)
    pub heads: Vec<RefHead>,
    pub default_of: BTreeMap<u8, usize>,
    pub inbox_of: BTreeMap<(u8, u8), usize>,
}

/// Ingress id per the spec formula for parent-less local intents: H("ingress:" || kind || bytes).
pub fn ref_ingress_id(intent: &Intent) -> [u8; 32] {
    let mut h = blake3::Hasher::new();
    h.update(b"ingress:");
    h.update(kind(intent.kind).as_hash());
    h.update(&intent.prog.encode());
    *h.finalize().as_bytes()
}

impl RefRuntime {
    pub fn new(spec: &WorldSpec) -> Self {
        let mut heads: Vec<RefHead> = Vec::new();
        for wl in &spec.worldlines {
            for h in &wl.heads {
                heads.push(RefHead { wl: wl.id, label: h.label, key: head_key(wl.id, h.label), policy: h.policy.clone(), pending: BTreeSet::new(), committed: BTreeSet::new() });
            }
        }
        heads.sort_by(|a, b| a.key.cmp(&b.key));
        let mut default_of = BTreeMap::new();
        let mut inbox_of = BTreeMap::new();
        for wl in &spec.worldlines {
            for h in &wl.heads {
                let ix = heads.iter().position(|x| x.wl == wl.id && x.label == h.label).unwrap_or(0);
                if h.default {
                    default_of.insert(wl.id, ix);
                }
                if let Some(n) = h.inbox {
                    inbox_of.insert((wl.id, n), ix);
                }
            }
        }
        RefRuntime { heads, default_of, inbox_of }
    }

    pub fn resolve(&self, t: &TargetSpec) -> Option<usize> {
        match t {
            TargetSpec::Default { wl } => self.default_of.get(wl).copied(),
            TargetSpec::Inbox { wl, name } => self.inbox_of.get(&(*wl, *name)).copied(),
            TargetSpec::Exact { wl, head } => self.heads.iter().position(|h| h.wl == *wl && h.label == *head),
        }
    }

    pub fn ingest(&mut self, intent: &Intent) -> (RefDisposition, Option<usize>) {
        let Some(ix) = self.resolve(&intent.target) else { return (RefDisposition::Unroutable, None) };
        let id = ref_ingress_id(intent);
        let h = &mut self.heads[ix];
        if h.committed.contains(&id) {
            return (RefDisposition::Duplicate, Some(ix));
        }
        if let PolicySpec::Kinds(k) = &h.policy {
            if !k.contains(&intent.kind) {
                return (RefDisposition::RejectedByPolicy, Some(ix));
            }
        }
        if h.pending.insert(id) {
            (RefDisposition::Accepted, Some(ix))
        } else {
            (RefDisposition::Duplicate, Some(ix))
        }
    }

    /// Batch a head would admit now (ascending ingress id, truncated by budget).
    pub fn admissible(&self, ix: usize) -> Vec<[u8; 32]> {
        let h = &self.heads[ix];
        let limit = match h.policy {
            PolicySpec::Budget(n) => n as usize,
            _ => usize::MAX,
        };
        h.pending.iter().take(limit).copied().collect()
    }

    /// Commit the admissible batch of head `ix`.
    pub fn commit(&mut self, ix: usize) -> Vec<[u8; 32]> {
        let batch = self.admissible(ix);
        let h = &mut self.heads[ix];
        for id in &batch {
            h.pending.remove(id);
            h.committed.insert(*id);
        }
        batch
    }
}
