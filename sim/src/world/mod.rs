//! Shared workload: id universe, programs-as-data, interpreter rules, generators, engine tick driver.
pub mod gen;
pub mod ids;
pub mod prog;
pub mod rules;
pub mod runtime;
pub mod states;
pub mod tick;
