//! Small id universe. Ids are crafted 32-byte values so that a scenario can place scopes in
//! chosen (instance, shard) work units: `shard_of` looks at the first 8 bytes of a node id.

use warp_core::{make_type_id, EdgeId, NodeId, TypeId, WarpId};

pub const N_WARPS: u8 = 3;
pub const N_NODES: u8 = 8;
pub const N_EDGES: u8 = 8;
pub const N_TYPES: u8 = 4;

/// Instance ids W0 (root), W1, W2.
pub fn warp(i: u8) -> WarpId {
    let mut b = [0u8; 32];
    b[0] = 0xA0 + i;
    b[1] = b'W';
    b[31] = i;
    WarpId(b)
}

/// Data node n_i: lives in shard `i % 3`.
pub fn node(i: u8) -> NodeId {
    let mut b = [0u8; 32];
    b[0] = i % 3;
    b[8] = b'n';
    b[9] = i;
    NodeId(b)
}

/// Program scope node p_k placed in shard `shard`.
pub fn pnode(k: u16, shard: u8) -> NodeId {
    let mut b = [0u8; 32];
    b[0] = shard;
    b[8] = b'p';
    b[9] = (k & 0xff) as u8;
    b[10] = (k >> 8) as u8;
    NodeId(b)
}

/// Root node of instance `w`.
pub fn root_node(w: u8) -> NodeId {
    let mut b = [0u8; 32];
    b[0] = 7;
    b[8] = b'r';
    b[9] = w;
    NodeId(b)
}

pub fn edge(i: u8) -> EdgeId {
    let mut b = [0u8; 32];
    b[0] = b'e';
    b[1] = i;
    EdgeId(b)
}

/// Structural edges (root -> data node) used to make content reachable: ids disjoint from data edges.
pub fn link_edge(w: u8, i: u8) -> EdgeId {
    let mut b = [0u8; 32];
    b[0] = b'l';
    b[1] = w;
    b[2] = i;
    EdgeId(b)
}

pub fn ty(i: u8) -> TypeId {
    match i {
        0 => make_type_id("verif/t0"),
        1 => make_type_id("verif/t1"),
        2 => make_type_id("verif/t2"),
        3 => make_type_id("verif/t3"),
        _ => make_type_id("verif/tx"),
    }
}

pub fn prog_type() -> TypeId {
    make_type_id("verif/prog")
}
