//! State and program generators (all draws from the scenario PRNG; results are plain data).

use std::collections::BTreeSet;

use serde::{Deserialize, Serialize};
use warp_core::{
    AttachmentKey, EdgeKey, EdgeRecord, NodeKey, NodeRecord, PortalInit, TickCommitStatus, WarpInstance, WarpOp, WarpState,
    WarpTickPatchV1,
};

use super::ids;
use super::prog::{nid, val_att, Decl, Prog, Step, Val, N};
use crate::kernel::Rng;
use crate::model::refstate::RefState;

#[derive(Clone, Debug, Serialize, Deserialize, PartialEq, Eq)]
pub enum PortalSpec {
    OnNode { pw: u8, n: N },
    OnEdge { pw: u8, e: u8 },
}

#[derive(Clone, Debug, Serialize, Deserialize, PartialEq, Eq)]
pub struct InstSpec {
    pub w: u8,
    pub nodes: Vec<(N, u8)>,
    /// (edge, from, to, ty)
    pub edges: Vec<(u8, N, N, u8)>,
    pub node_atts: Vec<(N, Val)>,
    pub edge_atts: Vec<(u8, Val)>,
    pub portal: Option<PortalSpec>,
    /// Programs placed on scope nodes: (k, shard, program)
    pub progs: Vec<(u16, u8, Prog)>,
    /// Filler scope nodes k in range (start, count, shard modulus) holding Noop programs for rule 0.
    pub filler: Option<(u16, u16, u8)>,
}

#[derive(Clone, Debug, Serialize, Deserialize, PartialEq, Eq)]
pub struct StateSpec {
    pub insts: Vec<InstSpec>,
}

pub fn filler_prog(k: u16) -> Prog {
    Prog {
        rule: 0,
        nonce: 0x8000_0000 | u32::from(k),
        steps: vec![Step::Noop],
        decl: Decl::Honest,
    }
}

impl StateSpec {
    pub fn warps(&self) -> Vec<warp_core::WarpId> {
        (0..ids::N_WARPS).map(ids::warp).collect()
    }

    /// Ops that build instance `i` (one patch per instance; portal first).
    pub fn inst_ops(&self, inst: &InstSpec) -> Vec<WarpOp> {
        let w = ids::warp(inst.w);
        let scope = ids::root_node(inst.w);
        let mut ops = Vec::new();
        let root = ids::root_node(inst.w);
        match &inst.portal {
            None => {
                ops.push(WarpOp::UpsertWarpInstance {
                    instance: WarpInstance { warp_id: w, root_node: root, parent: None },
                });
                ops.push(WarpOp::UpsertNode {
                    node: NodeKey { warp_id: w, local_id: root },
                    record: NodeRecord { ty: ids::ty(0) },
                });
            }
            Some(p) => {
                let key = match p {
                    PortalSpec::OnNode { pw, n } => AttachmentKey::node_alpha(NodeKey { warp_id: ids::warp(*pw), local_id: nid(*n, &scope) }),
                    PortalSpec::OnEdge { pw, e } => AttachmentKey::edge_beta(EdgeKey { warp_id: ids::warp(*pw), local_id: ids::edge(*e) }),
                };
                ops.push(WarpOp::OpenPortal {
                    key,
                    child_warp: w,
                    child_root: root,
                    init: PortalInit::Empty { root_record: NodeRecord { ty: ids::ty(0) } },
                });
            }
        }
        for (n, t) in &inst.nodes {
            ops.push(WarpOp::UpsertNode {
                node: NodeKey { warp_id: w, local_id: nid(*n, &scope) },
                record: NodeRecord { ty: ids::ty(*t) },
            });
        }
        for (e, f, t, ty) in &inst.edges {
            ops.push(WarpOp::UpsertEdge {
                warp_id: w,
                record: EdgeRecord { id: ids::edge(*e), from: nid(*f, &scope), to: nid(*t, &scope), ty: ids::ty(*ty) },
            });
        }
        for (n, v) in &inst.node_atts {
            ops.push(WarpOp::SetAttachment {
                key: AttachmentKey::node_alpha(NodeKey { warp_id: w, local_id: nid(*n, &scope) }),
                value: Some(val_att(v)),
            });
        }
        for (e, v) in &inst.edge_atts {
            ops.push(WarpOp::SetAttachment {
                key: AttachmentKey::edge_beta(EdgeKey { warp_id: w, local_id: ids::edge(*e) }),
                value: Some(val_att(v)),
            });
        }
        let place = |k: u16, shard: u8, p: &Prog, ops: &mut Vec<WarpOp>| {
            let node = NodeKey { warp_id: w, local_id: ids::pnode(k, shard) };
            ops.push(WarpOp::UpsertNode { node, record: NodeRecord { ty: ids::ty(1) } });
            ops.push(WarpOp::SetAttachment { key: AttachmentKey::node_alpha(node), value: Some(p.attachment()) });
        };
        for (k, shard, p) in &inst.progs {
            place(*k, *shard, p, &mut ops);
        }
        if let Some((start, count, m)) = inst.filler {
            for k in start..start.saturating_add(count) {
                place(k, (k % u16::from(m.max(1))) as u8, &filler_prog(k), &mut ops);
            }
        }
        ops
    }

    /// Build the real state by applying one canonical patch per instance.
    pub fn build(&self) -> Result<WarpState, String> {
        let mut st = WarpState::new();
        for inst in &self.insts {
            let patch = WarpTickPatchV1::new(0, [0u8; 32], TickCommitStatus::Committed, vec![], vec![], self.inst_ops(inst));
            patch.apply_to_state(&mut st).map_err(|e| format!("build instance W{}: {e:?}", inst.w))?;
        }
        Ok(st)
    }

    /// Build the reference state directly from the spec with the reference applier.
    pub fn build_ref(&self) -> Result<RefState, String> {
        let mut st = RefState::default();
        for inst in &self.insts {
            let ops = crate::model::refstate::ref_merge(self.inst_ops(inst)).map_err(|()| "divergent ops in spec".to_owned())?;
            st.apply_ops(&ops).map_err(|e| format!("ref build W{}: {e:?}", inst.w))?;
        }
        Ok(st)
    }

    pub fn root_key(&self) -> NodeKey {
        NodeKey { warp_id: ids::warp(0), local_id: ids::root_node(0) }
    }
}

pub fn gen_val(rng: &mut Rng) -> Val {
    let len = match rng.below(8) {
        0 => 0,
        1 => 9,
        _ => rng.urange(0, 6),
    };
    Val {
        ty: rng.below(3) as u8,
        bytes: (0..len).map(|_| *rng.pick(b"abcd")).collect(),
    }
}

fn gen_inst(rng: &mut Rng, w: u8, portal: Option<PortalSpec>, node_pool: u8, reparent_attached_ok: bool) -> InstSpec {
    let _ = reparent_attached_ok;
    let mut nodes = Vec::new();
    for i in 0..node_pool {
        if rng.chance(3, 4) {
            nodes.push((N::D(i), rng.below(3) as u8));
        }
    }
    let present: Vec<N> = nodes.iter().map(|(n, _)| *n).chain(std::iter::once(N::R(w))).collect();
    let mut edges = Vec::new();
    for e in 0..ids::N_EDGES {
        if rng.chance(1, 2) {
            // bias sources towards the instance root so that a good share of the content is reachable
            let from = if rng.chance(1, 3) { N::R(w) } else { *rng.pick(&present) };
            let to = if rng.chance(1, 20) { N::D(rng.below(u64::from(ids::N_NODES)) as u8) } else { *rng.pick(&present) };
            edges.push((e, from, to, rng.below(3) as u8));
        }
    }
    let mut node_atts = Vec::new();
    for (n, _) in &nodes {
        if rng.chance(1, 2) {
            node_atts.push((*n, gen_val(rng)));
        }
    }
    let mut edge_atts = Vec::new();
    for (e, _, _, _) in &edges {
        if rng.chance(1, 2) {
            edge_atts.push((*e, gen_val(rng)));
        }
    }
    InstSpec { w, nodes, edges, node_atts, edge_atts, portal, progs: Vec::new(), filler: None }
}

/// Generate a multi-instance state (1..=3 instances).
pub fn gen_state(rng: &mut Rng, node_pool: u8) -> StateSpec {
    let mut insts = vec![gen_inst(rng, 0, None, node_pool, true)];
    let n_inst = rng.weighted(&[4, 3, 2]) + 1;
    if n_inst >= 2 {
        // W1: portal on a node of W0 that has no attachment, or on an edge of W0 without attachment.
        let w0 = &mut insts[0];
        let free_nodes: Vec<N> = w0.nodes.iter().map(|(n, _)| *n).filter(|n| !w0.node_atts.iter().any(|(m, _)| m == n)).collect();
        let free_edges: Vec<u8> = w0.edges.iter().map(|(e, ..)| *e).filter(|e| !w0.edge_atts.iter().any(|(m, _)| m == e)).collect();
        let portal = if !free_edges.is_empty() && rng.chance(1, 3) {
            Some(PortalSpec::OnEdge { pw: 0, e: *rng.pick(&free_edges) })
        } else if !free_nodes.is_empty() {
            Some(PortalSpec::OnNode { pw: 0, n: *rng.pick(&free_nodes) })
        } else {
            None
        };
        if let Some(p) = portal {
            let i1 = gen_inst(rng, 1, Some(p), node_pool, true);
            insts.push(i1);
            if n_inst >= 3 {
                let pw = rng.below(2) as u8;
                let used: Vec<PortalSpec> = insts.iter().filter_map(|i| i.portal.clone()).collect();
                let host = &insts[usize::from(pw)];
                let free_nodes: Vec<N> = host
                    .nodes
                    .iter()
                    .map(|(n, _)| *n)
                    .filter(|n| !host.node_atts.iter().any(|(m, _)| m == n) && !used.contains(&PortalSpec::OnNode { pw, n: *n }))
                    .collect();
                let free_edges: Vec<u8> = host
                    .edges
                    .iter()
                    .map(|(e, ..)| *e)
                    .filter(|e| !host.edge_atts.iter().any(|(m, _)| m == e) && !used.contains(&PortalSpec::OnEdge { pw, e: *e }))
                    .collect();
                let portal = if !free_edges.is_empty() && rng.chance(1, 2) {
                    Some(PortalSpec::OnEdge { pw, e: *rng.pick(&free_edges) })
                } else if !free_nodes.is_empty() {
                    Some(PortalSpec::OnNode { pw, n: *rng.pick(&free_nodes) })
                } else {
                    None
                };
                if let Some(p) = portal {
                    insts.push(gen_inst(rng, 2, Some(p), node_pool, true));
                }
            }
        }
    }
    StateSpec { insts }
}

/// Knobs for program generation.
#[derive(Clone, Copy, Debug)]
pub struct ProgKnobs {
    /// Number of distinct data nodes / edges programs may touch (small => many conflicts).
    pub node_pool: u8,
    pub edge_pool: u8,
    pub max_steps: usize,
    /// Avoid re-parenting an edge that carries an attachment (shape of a listed finding).
    pub avoid_reparent_attached: bool,
    /// Probability (in 1/16) that a step targets something absent from the state.
    pub absent_16: u64,
    /// Allow one program to write the same location twice with different values ("reset then
    /// set"): the two ops share a sort key, so the tick must be refused - under every schedule.
    pub double_write: bool,
}

fn write_key(step: &Step) -> Option<String> {
    Some(match step {
        Step::UpsertNode { n, .. } => format!("UN{n:?}"),
        Step::DeleteNode { n } => format!("DN{n:?}"),
        Step::UpsertEdge { e, from, .. } => format!("UE{from:?}{e}"),
        Step::DeleteEdge { from, e } => format!("DE{from:?}{e}"),
        Step::SetNodeAtt { n, .. } => format!("SA{n:?}"),
        Step::SetEdgeAtt { e, .. } => format!("SE{e}"),
        Step::CopyNodeAtt { dst, .. }
        | Step::CountAdjInto { dst, .. }
        | Step::NodeInfoInto { dst, .. }
        | Step::EdgeFlagInto { dst, .. }
        | Step::CopyEdgeAttInto { dst, .. } => format!("SA{dst:?}"),
        Step::IfEdge { then, .. } => return write_key(then),
        _ => return None,
    })
}

/// Generate one honest program against instance `inst` of `state`.
pub fn gen_prog(rng: &mut Rng, state: &StateSpec, wi: usize, rule: u8, nonce: u32, knobs: &ProgKnobs) -> Prog {
    let inst = &state.insts[wi];
    let portal_nodes: Vec<N> = state.insts.iter().filter_map(|i| match &i.portal { Some(PortalSpec::OnNode { pw, n }) if *pw == inst.w => Some(*n), _ => None }).collect();
    let portal_edges: Vec<u8> = state.insts.iter().filter_map(|i| match &i.portal { Some(PortalSpec::OnEdge { pw, e }) if *pw == inst.w => Some(*e), _ => None }).collect();
    let isolated: Vec<N> = inst
        .nodes
        .iter()
        .map(|(n, _)| *n)
        .filter(|n| matches!(n, N::D(i) if *i < knobs.node_pool) && !inst.edges.iter().any(|(_, f, t, _)| f == n || t == n) && !portal_nodes.contains(n))
        .collect();
    let present_nodes: Vec<N> = inst.nodes.iter().map(|(n, _)| *n).filter(|n| matches!(n, N::D(i) if *i < knobs.node_pool)).collect();
    let present_edges: Vec<(u8, N)> = inst.edges.iter().filter(|(e, ..)| *e < knobs.edge_pool).map(|(e, f, ..)| (*e, *f)).collect();
    let risky = |rng: &mut Rng| rng.chance(knobs.absent_16, 16);
    let any_node = |rng: &mut Rng| -> N {
        if !present_nodes.is_empty() && !rng.chance(knobs.absent_16, 16) {
            *rng.pick(&present_nodes)
        } else {
            N::D(rng.below(u64::from(knobs.node_pool.max(1))) as u8)
        }
    };
    let any_edge = |rng: &mut Rng| -> (u8, Option<N>) {
        if !present_edges.is_empty() && !rng.chance(knobs.absent_16, 16) {
            let (e, f) = *rng.pick(&present_edges);
            (e, Some(f))
        } else {
            let e = rng.below(u64::from(knobs.edge_pool.max(1))) as u8;
            (e, inst.edges.iter().find(|(x, ..)| *x == e).map(|(_, f, ..)| *f))
        }
    };
    let edge_has_att = |e: u8| inst.edge_atts.iter().any(|(x, _)| *x == e);
    let n_steps = rng.urange(1, knobs.max_steps.max(1));
    let mut steps: Vec<Step> = Vec::new();
    let mut keys: BTreeSet<String> = BTreeSet::new();
    let mut guard = 0;
    while steps.len() < n_steps && guard < 40 {
        guard += 1;
        let step = match rng.weighted(&[3, 2, 3, 2, 2, 4, 2, 4, 3, 5, 3, 4, 3, 3, 2, 2, 2]) {
            0 => Step::ReadNode(any_node(rng)),
            1 => Step::ReadAdj(any_node(rng)),
            2 => Step::ReadNodeAtt(any_node(rng)),
            3 => Step::ReadEdgeAtt(any_edge(rng).0),
            4 => Step::HasEdge(any_edge(rng).0),
            5 => Step::UpsertNode { n: any_node(rng), ty: rng.below(3) as u8 },
            6 => {
                if !isolated.is_empty() && !risky(rng) {
                    Step::DeleteNode { n: *rng.pick(&isolated) }
                } else if risky(rng) {
                    Step::DeleteNode { n: any_node(rng) }
                } else {
                    continue;
                }
            }
            7 => {
                let (e, cur_from) = any_edge(rng);
                // retype / retarget (same from) or re-parent (new from)
                let from = match cur_from {
                    Some(f) if rng.chance(1, 2) => f,
                    _ => any_node(rng),
                };
                if knobs.avoid_reparent_attached && cur_from.is_some_and(|f| f != from) && edge_has_att(e) {
                    continue;
                }
                Step::UpsertEdge { e, from, to: any_node(rng), ty: rng.below(3) as u8 }
            }
            8 => {
                let (e, cur_from) = any_edge(rng);
                let from = match cur_from {
                    Some(f) if !risky(rng) => f,
                    None if !risky(rng) => continue,
                    _ => any_node(rng),
                };
                if portal_edges.contains(&e) && !risky(rng) {
                    continue;
                }
                Step::DeleteEdge { from, e }
            }
            9 => Step::SetNodeAtt { n: any_node(rng), val: if rng.chance(1, 4) { None } else { Some(gen_val(rng)) } },
            10 => Step::SetEdgeAtt { e: any_edge(rng).0, val: if rng.chance(1, 4) { None } else { Some(gen_val(rng)) } },
            11 => Step::CopyNodeAtt { dst: any_node(rng), src: any_node(rng) },
            12 => Step::CountAdjInto { dst: any_node(rng), src: any_node(rng) },
            13 => Step::NodeInfoInto { dst: any_node(rng), src: any_node(rng) },
            14 => Step::EdgeFlagInto { dst: any_node(rng), e: any_edge(rng).0 },
            15 => Step::CopyEdgeAttInto { dst: any_node(rng), e: any_edge(rng).0 },
            _ => {
                let inner = Step::SetNodeAtt { n: any_node(rng), val: Some(gen_val(rng)) };
                Step::IfEdge { e: any_edge(rng).0, then: Box::new(inner) }
            }
        };
        // Overwriting a portal slot breaks the portal invariant (lawful commit error): keep it rare.
        let hits_portal = match &step {
            Step::SetNodeAtt { n, .. } => portal_nodes.contains(n),
            Step::CopyNodeAtt { dst, .. } | Step::CountAdjInto { dst, .. } | Step::NodeInfoInto { dst, .. } | Step::EdgeFlagInto { dst, .. } | Step::CopyEdgeAttInto { dst, .. } => portal_nodes.contains(dst),
            Step::SetEdgeAtt { e, .. } => portal_edges.contains(e),
            Step::IfEdge { then, .. } => matches!(&**then, Step::SetNodeAtt { n, .. } if portal_nodes.contains(n)),
            _ => false,
        };
        if hits_portal && !risky(rng) {
            continue;
        }
        if let Some(k) = write_key(&step) {
            if !keys.insert(k) && !(knobs.double_write && rng.chance(1, 2)) {
                continue;
            }
        }
        steps.push(step);
    }
    if steps.is_empty() {
        steps.push(Step::Noop);
    }
    Prog { rule, nonce, steps, decl: Decl::Honest }
}

/// Template program: delete node `n` after detaching it — every outgoing edge is deleted, every
/// incoming edge is either deleted or retargeted to another node (retarget-then-delete shape), and
/// optionally an attached edge elsewhere is re-parented. Returns None when the instance offers no
/// suitable node.
pub fn gen_repoint_delete(rng: &mut Rng, state: &StateSpec, wi: usize, rule: u8, nonce: u32) -> Option<Prog> {
    let inst = &state.insts[wi];
    let portal_nodes: Vec<N> = state.insts.iter().filter_map(|i| match &i.portal { Some(PortalSpec::OnNode { pw, n }) if *pw == inst.w => Some(*n), _ => None }).collect();
    let portal_edges: Vec<u8> = state.insts.iter().filter_map(|i| match &i.portal { Some(PortalSpec::OnEdge { pw, e }) if *pw == inst.w => Some(*e), _ => None }).collect();
    let victims: Vec<N> = inst
        .nodes
        .iter()
        .map(|(n, _)| *n)
        .filter(|n| !portal_nodes.contains(n) && inst.edges.iter().any(|(e, _, t, _)| t == n && !portal_edges.contains(e)))
        .collect();
    if victims.is_empty() {
        return None;
    }
    let n = *rng.pick(&victims);
    let others: Vec<N> = inst.nodes.iter().map(|(m, _)| *m).filter(|m| *m != n).chain(std::iter::once(N::R(inst.w))).collect();
    let mut steps = Vec::new();
    for (e, f, t, ty) in &inst.edges {
        if portal_edges.contains(e) && (*f == n || *t == n) {
            return None;
        }
        if *f == n {
            steps.push(Step::DeleteEdge { from: n, e: *e });
        } else if *t == n {
            if rng.chance(2, 3) {
                // retarget = delete + re-insert under the same id (the delete replays before the node
                // delete, the upsert after it)
                steps.push(Step::DeleteEdge { from: *f, e: *e });
                steps.push(Step::UpsertEdge { e: *e, from: if rng.chance(1, 4) { *rng.pick(&others) } else { *f }, to: *rng.pick(&others), ty: *ty });
            } else {
                steps.push(Step::DeleteEdge { from: *f, e: *e });
            }
        }
    }
    steps.push(Step::DeleteNode { n });
    rng.shuffle(&mut steps);
    Some(Prog { rule, nonce, steps, decl: Decl::Honest })
}
