//! Interpreter rules: N_RULES rule ids share one data-driven interpreter. Rule callbacks are
//! plain `fn` pointers, so the program lives in the graph (scope node attachment).

use std::cell::Cell;

use warp_core::{
    AttachmentValue, ConflictPolicy, EdgeId, Footprint, GraphView, Hash, NodeId, PatternGraph, RewriteRule, TickDelta,
};

use super::prog::{declared_accesses, footprint_from, interpret, Prog};

pub const N_RULES: u8 = 4;

pub const RULE_NAMES: [&str; 4] = ["cmd/verif/r0", "cmd/verif/r1", "cmd/verif/r2", "cmd/verif/r3"];

thread_local! {
    /// Number of rule callbacks (match / footprint / execute) invoked on this thread.
    pub static CALLBACKS: Cell<u64> = const { Cell::new(0) };
}

pub fn callbacks() -> u64 {
    CALLBACKS.with(Cell::get)
}

fn bump() {
    CALLBACKS.with(|c| c.set(c.get() + 1));
}

pub fn rule_id(i: u8) -> Hash {
    *blake3::hash(format!("verif/rule/{i}").as_bytes()).as_bytes()
}

fn program_at(view: GraphView<'_>, scope: &NodeId) -> Option<Prog> {
    match view.node_attachment(scope) {
        Some(AttachmentValue::Atom(a)) => Prog::decode(&a.bytes),
        _ => None,
    }
}

fn matches_rule(view: GraphView<'_>, scope: &NodeId, rule: u8) -> bool {
    bump();
    program_at(view, scope).is_some_and(|p| p.rule == rule)
}

fn m0(v: GraphView<'_>, s: &NodeId) -> bool {
    matches_rule(v, s, 0)
}
fn m1(v: GraphView<'_>, s: &NodeId) -> bool {
    matches_rule(v, s, 1)
}
fn m2(v: GraphView<'_>, s: &NodeId) -> bool {
    matches_rule(v, s, 2)
}
fn m3(v: GraphView<'_>, s: &NodeId) -> bool {
    matches_rule(v, s, 3)
}

/// Previous source node of an edge id in the pre-tick state. `GraphView` has no reverse index, so
/// the footprint function scans the small universe of possible source nodes (unguarded view).
fn prev_from_in(view: GraphView<'_>, e: &EdgeId, candidates: &[NodeId]) -> Option<NodeId> {
    for n in candidates {
        if view.edges_from(n).any(|r| r.id == *e) {
            return Some(*n);
        }
    }
    None
}

pub fn universe_sources(scope: &NodeId) -> Vec<NodeId> {
    let mut v: Vec<NodeId> = (0..super::ids::N_NODES).map(super::ids::node).collect();
    for w in 0..super::ids::N_WARPS {
        v.push(super::ids::root_node(w));
    }
    v.push(*scope);
    v
}

fn footprint(view: GraphView<'_>, scope: &NodeId) -> Footprint {
    bump();
    let Some(prog) = program_at(view, scope) else {
        return Footprint::default();
    };
    let w = view.warp_id();
    let sources = universe_sources(scope);
    let prev = |e: &EdgeId| prev_from_in(view, e, &sources);
    let (acc, _) = declared_accesses(&prog, w, scope, &prev);
    footprint_from(&acc, w)
}

fn execute(view: GraphView<'_>, scope: &NodeId, delta: &mut TickDelta) {
    bump();
    // Program fetch through the (guarded) view: declared as a_read(scope alpha).
    let Some(prog) = program_at(view, scope) else {
        return;
    };
    let w = view.warp_id();
    interpret(&prog, &view, w, scope, &mut |op| delta.emit(op));
}

/// The shared executor as a plain fn pointer (for `ExecItem::new` on the policy surface).
pub fn exec_fn() -> warp_core::ExecuteFn {
    execute
}

pub fn make_rule(i: u8) -> RewriteRule {
    let matcher = match i {
        0 => m0,
        1 => m1,
        2 => m2,
        _ => m3,
    };
    RewriteRule {
        id: rule_id(i),
        name: RULE_NAMES[usize::from(i.min(3))],
        left: PatternGraph { nodes: vec![] },
        matcher,
        executor: execute,
        compute_footprint: footprint,
        factor_mask: 0,
        conflict_policy: ConflictPolicy::Abort,
        join_fn: None,
    }
}
