//! Programs as data: a `Prog` is a list of steps over the small universe, stored as the atom
//! attachment of its scope node (engine path) or as intent bytes (runtime path). One interpreter
//! serves all rule ids; the same interpreter runs against the real guarded `GraphView` (executor)
//! and against a `RefState` instance (reference model).

use serde::{Deserialize, Serialize};
use warp_core::{
    AtomPayload, AttachmentKey, AttachmentValue, EdgeId, EdgeKey, EdgeRecord, Footprint, GraphView, NodeId, NodeKey,
    NodeRecord, WarpId, WarpInstance, WarpOp,
};

use super::ids;
use crate::model::refstate::{RefAtt, RefInst};

/// Node reference: data node, program scope node, or instance root.
#[derive(Clone, Copy, Debug, Serialize, Deserialize, PartialEq, Eq, PartialOrd, Ord)]
pub enum N {
    D(u8),
    P(u16, u8),
    R(u8),
    /// The scope node itself.
    Scope,
}

#[derive(Clone, Debug, Serialize, Deserialize, PartialEq, Eq)]
pub struct Val {
    pub ty: u8,
    pub bytes: Vec<u8>,
}

#[derive(Clone, Debug, Serialize, Deserialize, PartialEq, Eq)]
pub enum Step {
    ReadNode(N),
    ReadAdj(N),
    ReadNodeAtt(N),
    ReadEdgeAtt(u8),
    HasEdge(u8),
    UpsertNode { n: N, ty: u8 },
    DeleteNode { n: N },
    UpsertEdge { e: u8, from: N, to: N, ty: u8 },
    DeleteEdge { from: N, e: u8 },
    SetNodeAtt { n: N, val: Option<Val> },
    SetEdgeAtt { e: u8, val: Option<Val> },
    /// dst.att := summary of what was read from src's attachment (value depends on the read).
    CopyNodeAtt { dst: N, src: N },
    /// dst.att := (number of out-edges of src, xor of their id bytes) (depends on adjacency).
    CountAdjInto { dst: N, src: N },
    /// dst.att := (node src exists?, its type) (depends on the node record).
    NodeInfoInto { dst: N, src: N },
    /// dst.att := has_edge(e) (depends on edge existence).
    EdgeFlagInto { dst: N, e: u8 },
    /// dst.att := summary of edge e's attachment.
    CopyEdgeAttInto { dst: N, e: u8 },
    /// Emit `op` only if edge e exists.
    IfEdge { e: u8, then: Box<Step> },
    /// Runtime path only: delete the `event -> kind` edge that ingress materialisation created for
    /// this very intent (scope = event node; the edge id is derived from scope and intent kind).
    DeleteKindEdge { kind: u8 },
    // --- dishonest / faulty steps (C14, C09) ---
    /// Write a node in another instance.
    CrossWarpUpsert { w: u8, n: N, ty: u8 },
    /// Instance-level op from a non-system rule.
    InstanceOp { w: u8 },
    /// Delete an instance (instance-level op).
    DeleteInstance { w: u8 },
    Panic,
    Noop,
}

/// How the declared footprint is derived.
#[derive(Clone, Debug, Serialize, Deserialize, PartialEq, Eq)]
pub enum Decl {
    Honest,
    /// Honest minus the `k`-th entry of the honest footprint's entry list restricted to `class`.
    Omit { class: FpClass, k: u8 },
    /// Honest but without the "previous source node" entry for re-parenting upserts
    /// (what the guard demands today).
    NoPrevFrom,
}

#[derive(Clone, Copy, Debug, Serialize, Deserialize, PartialEq, Eq, PartialOrd, Ord)]
pub enum FpClass {
    NRead,
    NWrite,
    ERead,
    EWrite,
    ARead,
    AWrite,
}

#[derive(Clone, Debug, Serialize, Deserialize, PartialEq, Eq)]
pub struct Prog {
    /// Which rule (0..N_RULES) this program is for.
    pub rule: u8,
    /// Unique nonce so that every program / intent is distinguishable.
    pub nonce: u32,
    pub steps: Vec<Step>,
    pub decl: Decl,
}

pub const MAGIC: &[u8; 4] = b"VPRG";

impl Prog {
    pub fn encode(&self) -> Vec<u8> {
        let mut out = MAGIC.to_vec();
        out.extend_from_slice(&serde_json::to_vec(self).unwrap_or_default());
        out
    }
    pub fn decode(bytes: &[u8]) -> Option<Prog> {
        if bytes.len() < 4 || &bytes[..4] != MAGIC {
            return None;
        }
        serde_json::from_slice(&bytes[4..]).ok()
    }
    pub fn attachment(&self) -> AttachmentValue {
        AttachmentValue::Atom(AtomPayload::new(ids::prog_type(), bytes::Bytes::from(self.encode())))
    }
}

pub fn nid(n: N, scope: &NodeId) -> NodeId {
    match n {
        N::D(i) => ids::node(i),
        N::P(k, s) => ids::pnode(k, s),
        N::R(w) => ids::root_node(w),
        N::Scope => *scope,
    }
}

/// Kind node of an intent kind and the `event -> kind` edge id, as documented for runtime ingress
/// materialisation: kind node id = intent-kind hash; edge id = H("runtime/ingress/intent_kind:" || event || kind node).
pub fn kind_node_id(kind: u8) -> NodeId {
    NodeId(*warp_core::make_intent_kind(&format!("verif/k{kind}")).as_hash())
}

pub fn kind_edge_id(event: &NodeId, kind: u8) -> EdgeId {
    let mut h = blake3::Hasher::new();
    h.update(b"runtime/ingress/intent_kind:");
    h.update(&event.0);
    h.update(&kind_node_id(kind).0);
    EdgeId(*h.finalize().as_bytes())
}

pub fn val_att(v: &Val) -> AttachmentValue {
    AttachmentValue::Atom(AtomPayload::new(ids::ty(v.ty), bytes::Bytes::from(v.bytes.clone())))
}

/// Read interface shared by the real view and the reference instance.
pub trait Reader {
    fn node_ty(&self, n: &NodeId) -> Option<[u8; 32]>;
    /// (edge id, to, ty) of out-edges in ascending edge-id order.
    fn adj(&self, n: &NodeId) -> Vec<([u8; 32], [u8; 32], [u8; 32])>;
    fn node_att(&self, n: &NodeId) -> Option<RefAtt>;
    fn edge_att(&self, e: &EdgeId) -> Option<RefAtt>;
    fn has_edge(&self, e: &EdgeId) -> bool;
}

impl Reader for GraphView<'_> {
    fn node_ty(&self, n: &NodeId) -> Option<[u8; 32]> {
        self.node(n).map(|r| r.ty.0)
    }
    fn adj(&self, n: &NodeId) -> Vec<([u8; 32], [u8; 32], [u8; 32])> {
        let mut v: Vec<_> = self.edges_from(n).map(|e| (e.id.0, e.to.0, e.ty.0)).collect();
        v.sort();
        v
    }
    fn node_att(&self, n: &NodeId) -> Option<RefAtt> {
        self.node_attachment(n).map(crate::model::refstate::att_of)
    }
    fn edge_att(&self, e: &EdgeId) -> Option<RefAtt> {
        self.edge_attachment(e).map(crate::model::refstate::att_of)
    }
    fn has_edge(&self, e: &EdgeId) -> bool {
        GraphView::has_edge(self, e)
    }
}

impl Reader for RefInst {
    fn node_ty(&self, n: &NodeId) -> Option<[u8; 32]> {
        self.nodes.get(&n.0).copied()
    }
    fn adj(&self, n: &NodeId) -> Vec<([u8; 32], [u8; 32], [u8; 32])> {
        let mut v: Vec<_> = self.edges.iter().filter(|(_, (f, _, _))| *f == n.0).map(|(id, (_, t, ty))| (*id, *t, *ty)).collect();
        v.sort();
        v
    }
    fn node_att(&self, n: &NodeId) -> Option<RefAtt> {
        self.node_att.get(&n.0).cloned()
    }
    fn edge_att(&self, e: &EdgeId) -> Option<RefAtt> {
        self.edge_att.get(&e.0).cloned()
    }
    fn has_edge(&self, e: &EdgeId) -> bool {
        self.edges.contains_key(&e.0)
    }
}

fn summary(att: &Option<RefAtt>) -> Vec<u8> {
    match att {
        None => vec![0],
        Some(RefAtt::Descend(w)) => {
            let mut v = vec![2];
            v.extend_from_slice(&w[..2]);
            v
        }
        Some(RefAtt::Atom { ty, bytes }) => {
            let h = blake3::hash(bytes);
            let mut v = vec![1, ty[0], ty[1], (bytes.len() & 0xff) as u8];
            v.extend_from_slice(&h.as_bytes()[..4]);
            v
        }
    }
}

fn derived(tag: u8, nonce: u32, payload: Vec<u8>) -> AttachmentValue {
    let mut bytes = vec![tag];
    bytes.extend_from_slice(&nonce.to_le_bytes());
    bytes.extend_from_slice(&payload);
    AttachmentValue::Atom(AtomPayload::new(ids::ty(3), bytes::Bytes::from(bytes)))
}

fn set_node_att(w: WarpId, n: NodeId, value: Option<AttachmentValue>) -> WarpOp {
    WarpOp::SetAttachment {
        key: AttachmentKey::node_alpha(NodeKey { warp_id: w, local_id: n }),
        value,
    }
}

/// Interpret `prog` at `scope` in instance `w` against `r`; returns emitted ops.
/// `Step::Panic` panics after the preceding steps' ops were emitted through `emit`.
pub fn interpret(prog: &Prog, r: &dyn Reader, w: WarpId, scope: &NodeId, emit: &mut dyn FnMut(WarpOp)) {
    for step in &prog.steps {
        interp_step(prog, step, r, w, scope, emit);
    }
}

fn interp_step(prog: &Prog, step: &Step, r: &dyn Reader, w: WarpId, scope: &NodeId, emit: &mut dyn FnMut(WarpOp)) {
    match step {
        Step::ReadNode(n) => {
            let _ = r.node_ty(&nid(*n, scope));
        }
        Step::ReadAdj(n) => {
            let _ = r.adj(&nid(*n, scope));
        }
        Step::ReadNodeAtt(n) => {
            let _ = r.node_att(&nid(*n, scope));
        }
        Step::ReadEdgeAtt(e) => {
            let _ = r.edge_att(&ids::edge(*e));
        }
        Step::HasEdge(e) => {
            let _ = r.has_edge(&ids::edge(*e));
        }
        Step::UpsertNode { n, ty } => emit(WarpOp::UpsertNode {
            node: NodeKey { warp_id: w, local_id: nid(*n, scope) },
            record: NodeRecord { ty: ids::ty(*ty) },
        }),
        Step::DeleteNode { n } => emit(WarpOp::DeleteNode {
            node: NodeKey { warp_id: w, local_id: nid(*n, scope) },
        }),
        Step::UpsertEdge { e, from, to, ty } => emit(WarpOp::UpsertEdge {
            warp_id: w,
            record: EdgeRecord {
                id: ids::edge(*e),
                from: nid(*from, scope),
                to: nid(*to, scope),
                ty: ids::ty(*ty),
            },
        }),
        Step::DeleteEdge { from, e } => emit(WarpOp::DeleteEdge {
            warp_id: w,
            from: nid(*from, scope),
            edge_id: ids::edge(*e),
        }),
        Step::SetNodeAtt { n, val } => emit(set_node_att(w, nid(*n, scope), val.as_ref().map(val_att))),
        Step::SetEdgeAtt { e, val } => emit(WarpOp::SetAttachment {
            key: AttachmentKey::edge_beta(EdgeKey { warp_id: w, local_id: ids::edge(*e) }),
            value: val.as_ref().map(val_att),
        }),
        Step::CopyNodeAtt { dst, src } => {
            let a = r.node_att(&nid(*src, scope));
            emit(set_node_att(w, nid(*dst, scope), Some(derived(b'c', prog.nonce, summary(&a)))));
        }
        Step::CountAdjInto { dst, src } => {
            let adj = r.adj(&nid(*src, scope));
            let mut payload = vec![adj.len() as u8];
            let mut x = [0u8; 4];
            for (id, to, ty) in &adj {
                x[0] ^= id[1];
                x[1] ^= to[9];
                x[2] ^= ty[0];
                x[3] = x[3].wrapping_add(id[0]);
            }
            payload.extend_from_slice(&x);
            emit(set_node_att(w, nid(*dst, scope), Some(derived(b'a', prog.nonce, payload))));
        }
        Step::NodeInfoInto { dst, src } => {
            let t = r.node_ty(&nid(*src, scope));
            let payload = match t {
                None => vec![0],
                Some(t) => vec![1, t[0], t[1]],
            };
            emit(set_node_att(w, nid(*dst, scope), Some(derived(b'n', prog.nonce, payload))));
        }
        Step::EdgeFlagInto { dst, e } => {
            let f = r.has_edge(&ids::edge(*e));
            emit(set_node_att(w, nid(*dst, scope), Some(derived(b'e', prog.nonce, vec![u8::from(f)]))));
        }
        Step::CopyEdgeAttInto { dst, e } => {
            let a = r.edge_att(&ids::edge(*e));
            emit(set_node_att(w, nid(*dst, scope), Some(derived(b'b', prog.nonce, summary(&a)))));
        }
        Step::IfEdge { e, then } => {
            if r.has_edge(&ids::edge(*e)) {
                interp_step(prog, then, r, w, scope, emit);
            }
        }
        Step::DeleteKindEdge { kind } => emit(WarpOp::DeleteEdge { warp_id: w, from: *scope, edge_id: kind_edge_id(scope, *kind) }),
        Step::CrossWarpUpsert { w: ow, n, ty } => emit(WarpOp::UpsertNode {
            node: NodeKey { warp_id: ids::warp(*ow), local_id: nid(*n, scope) },
            record: NodeRecord { ty: ids::ty(*ty) },
        }),
        Step::InstanceOp { w: ow } => emit(WarpOp::UpsertWarpInstance {
            instance: WarpInstance {
                warp_id: ids::warp(*ow),
                root_node: ids::root_node(*ow),
                parent: None,
            },
        }),
        Step::DeleteInstance { w: ow } => emit(WarpOp::DeleteWarpInstance { warp_id: ids::warp(*ow) }),
        Step::Panic => panic!("verif: program panic (nonce {})", prog.nonce),
        Step::Noop => {}
    }
}

/// One declared access.
#[derive(Clone, Copy, Debug, PartialEq, Eq, PartialOrd, Ord)]
pub enum Access {
    NRead(NodeId),
    NWrite(NodeId),
    ERead(EdgeId),
    EWrite(EdgeId),
    ARead(AttachmentKey),
    AWrite(AttachmentKey),
}

impl Access {
    pub fn class(&self) -> FpClass {
        match self {
            Access::NRead(_) => FpClass::NRead,
            Access::NWrite(_) => FpClass::NWrite,
            Access::ERead(_) => FpClass::ERead,
            Access::EWrite(_) => FpClass::EWrite,
            Access::ARead(_) => FpClass::ARead,
            Access::AWrite(_) => FpClass::AWrite,
        }
    }
}

fn alpha(w: WarpId, n: NodeId) -> AttachmentKey {
    AttachmentKey::node_alpha(NodeKey { warp_id: w, local_id: n })
}
fn beta(w: WarpId, e: EdgeId) -> AttachmentKey {
    AttachmentKey::edge_beta(EdgeKey { warp_id: w, local_id: e })
}

fn step_accesses(step: &Step, w: WarpId, scope: &NodeId, prev_from: &dyn Fn(&EdgeId) -> Option<NodeId>, with_prev: bool, out: &mut Vec<Access>) {
    match step {
        Step::ReadNode(n) | Step::ReadAdj(n) => out.push(Access::NRead(nid(*n, scope))),
        Step::ReadNodeAtt(n) => out.push(Access::ARead(alpha(w, nid(*n, scope)))),
        Step::ReadEdgeAtt(e) => out.push(Access::ARead(beta(w, ids::edge(*e)))),
        Step::HasEdge(e) => out.push(Access::ERead(ids::edge(*e))),
        Step::UpsertNode { n, .. } => out.push(Access::NWrite(nid(*n, scope))),
        Step::DeleteNode { n } => {
            out.push(Access::NWrite(nid(*n, scope)));
            out.push(Access::AWrite(alpha(w, nid(*n, scope))));
        }
        Step::UpsertEdge { e, from, .. } => {
            out.push(Access::EWrite(ids::edge(*e)));
            out.push(Access::NWrite(nid(*from, scope)));
            if with_prev {
                if let Some(old) = prev_from(&ids::edge(*e)) {
                    if old != nid(*from, scope) {
                        // a migration is recorded as DeleteEdge(old from) + UpsertEdge: the previous
                        // source's adjacency and (through the delete's cascade) the edge attachment slot
                        out.push(Access::NWrite(old));
                        out.push(Access::AWrite(beta(w, ids::edge(*e))));
                    }
                }
            }
        }
        Step::DeleteEdge { from, e } => {
            out.push(Access::EWrite(ids::edge(*e)));
            out.push(Access::NWrite(nid(*from, scope)));
            out.push(Access::AWrite(beta(w, ids::edge(*e))));
        }
        Step::SetNodeAtt { n, .. } => out.push(Access::AWrite(alpha(w, nid(*n, scope)))),
        Step::SetEdgeAtt { e, .. } => out.push(Access::AWrite(beta(w, ids::edge(*e)))),
        Step::CopyNodeAtt { dst, src } => {
            out.push(Access::ARead(alpha(w, nid(*src, scope))));
            out.push(Access::AWrite(alpha(w, nid(*dst, scope))));
        }
        Step::CountAdjInto { dst, src } | Step::NodeInfoInto { dst, src } => {
            out.push(Access::NRead(nid(*src, scope)));
            out.push(Access::AWrite(alpha(w, nid(*dst, scope))));
        }
        Step::EdgeFlagInto { dst, e } => {
            out.push(Access::ERead(ids::edge(*e)));
            out.push(Access::AWrite(alpha(w, nid(*dst, scope))));
        }
        Step::CopyEdgeAttInto { dst, e } => {
            out.push(Access::ARead(beta(w, ids::edge(*e))));
            out.push(Access::AWrite(alpha(w, nid(*dst, scope))));
        }
        Step::IfEdge { e, then } => {
            out.push(Access::ERead(ids::edge(*e)));
            step_accesses(then, w, scope, prev_from, with_prev, out);
        }
        Step::DeleteKindEdge { kind } => {
            let e = kind_edge_id(scope, *kind);
            out.push(Access::EWrite(e));
            out.push(Access::NWrite(*scope));
            out.push(Access::AWrite(beta(w, e)));
        }
        // Dishonest steps declare nothing for their illegal part.
        Step::CrossWarpUpsert { .. } | Step::InstanceOp { .. } | Step::DeleteInstance { .. } | Step::Panic | Step::Noop => {}
    }
}

/// The honest access list (sorted, deduped): everything a step reads, plus every location an
/// emitted op can change in the pre-tick state (including the previous source node of a
/// re-parented edge), plus the program fetch (scope node attachment read).
pub fn honest_accesses(prog: &Prog, w: WarpId, scope: &NodeId, prev_from: &dyn Fn(&EdgeId) -> Option<NodeId>, with_prev: bool) -> Vec<Access> {
    let mut out = vec![Access::ARead(alpha(w, *scope))];
    for s in &prog.steps {
        step_accesses(s, w, scope, prev_from, with_prev, &mut out);
    }
    out.sort();
    out.dedup();
    out
}

/// Declared access list according to `prog.decl`; returns also the omitted access, if any.
pub fn declared_accesses(prog: &Prog, w: WarpId, scope: &NodeId, prev_from: &dyn Fn(&EdgeId) -> Option<NodeId>) -> (Vec<Access>, Option<Access>) {
    match &prog.decl {
        Decl::Honest => (honest_accesses(prog, w, scope, prev_from, true), None),
        Decl::NoPrevFrom => (honest_accesses(prog, w, scope, prev_from, false), None),
        Decl::Omit { class, k } => {
            let all = honest_accesses(prog, w, scope, prev_from, true);
            let fetch = Access::ARead(alpha(w, *scope));
            let of_class: Vec<usize> = all.iter().enumerate().filter(|(_, a)| a.class() == *class && **a != fetch).map(|(i, _)| i).collect();
            if of_class.is_empty() {
                return (all, None);
            }
            let drop = of_class[usize::from(*k) % of_class.len()];
            let omitted = all[drop];
            let mut v = all;
            v.remove(drop);
            (v, Some(omitted))
        }
    }
}

pub fn footprint_from(accesses: &[Access], w: WarpId) -> Footprint {
    let mut fp = Footprint::default();
    // Sound partition mask (all-ones): the legacy scheduler's prefilter must never skip a real check.
    fp.factor_mask = u64::MAX;
    for a in accesses {
        match a {
            Access::NRead(n) => fp.n_read.insert_with_warp(w, *n),
            Access::NWrite(n) => fp.n_write.insert_with_warp(w, *n),
            Access::ERead(e) => fp.e_read.insert_with_warp(w, *e),
            Access::EWrite(e) => fp.e_write.insert_with_warp(w, *e),
            Access::ARead(k) => fp.a_read.insert(*k),
            Access::AWrite(k) => fp.a_write.insert(*k),
        }
    }
    fp
}

/// Reference conflict predicate on declared access lists (same instance assumed by construction:
/// keys carry their instance, node/edge ids are compared within the same warp `w`).
pub fn accesses_conflict(a: &[Access], b: &[Access]) -> bool {
    let writes = |x: &Access| matches!(x, Access::NWrite(_) | Access::EWrite(_) | Access::AWrite(_));
    for x in a {
        for y in b {
            let same = match (x, y) {
                (Access::NRead(p) | Access::NWrite(p), Access::NRead(q) | Access::NWrite(q)) => p == q,
                (Access::ERead(p) | Access::EWrite(p), Access::ERead(q) | Access::EWrite(q)) => p == q,
                (Access::ARead(p) | Access::AWrite(p), Access::ARead(q) | Access::AWrite(q)) => p == q,
                _ => false,
            };
            if same && (writes(x) || writes(y)) {
                return true;
            }
        }
    }
    false
}
