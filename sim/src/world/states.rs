//! State-space helpers shared by C04/C06: single semantic edits of a `StateSpec`, alternative
//! construction histories of the same abstract state, public state-root computation.

use warp_core::{
    AttachmentKey, EdgeId, EdgeRecord, NodeId, NodeKey, NodeRecord, TickCommitStatus, WarpOp, WarpState, WarpTickPatchV1,
    WorldlineState,
};

use super::gen::{gen_val, InstSpec, PortalSpec, StateSpec};
use super::ids;
use super::prog::N;
use crate::kernel::Rng;

/// Root computed by the engine's primary implementation through the public `WorldlineState` API.
pub fn state_root(state: &WarpState, root: NodeKey) -> Result<[u8; 32], String> {
    WorldlineState::new(state.clone(), root).map(|w| w.state_root()).map_err(|e| format!("{e:?}"))
}

fn portal_hosts(spec: &StateSpec, w: u8) -> (Vec<N>, Vec<u8>) {
    let mut nodes = Vec::new();
    let mut edges = Vec::new();
    for i in &spec.insts {
        match &i.portal {
            Some(PortalSpec::OnNode { pw, n }) if *pw == w => nodes.push(*n),
            Some(PortalSpec::OnEdge { pw, e }) if *pw == w => edges.push(*e),
            _ => {}
        }
    }
    (nodes, edges)
}

/// Apply one random semantic edit that keeps the spec well-formed. Returns a label of the edit kind.
pub fn edit_spec(rng: &mut Rng, spec: &mut StateSpec) -> &'static str {
    for _ in 0..20 {
        let wi = rng.usize_below(spec.insts.len());
        let w = spec.insts[wi].w;
        let (ph_nodes, ph_edges) = portal_hosts(spec, w);
        let has_children = spec.insts.iter().any(|i| matches!(&i.portal, Some(PortalSpec::OnNode { pw, .. }) | Some(PortalSpec::OnEdge { pw, .. }) if *pw == w));
        let inst = &mut spec.insts[wi];
        let present: Vec<N> = inst.nodes.iter().map(|(n, _)| *n).collect();
        match rng.below(13) {
            0 => {
                // add a node
                let n = N::D(rng.below(u64::from(ids::N_NODES)) as u8);
                if !present.contains(&n) {
                    inst.nodes.push((n, rng.below(3) as u8));
                    return "add_node";
                }
            }
            1 => {
                // remove a node (with its attachment and incident edges)
                if let Some(&n) = present.first().map(|_| rng.pick(&present)) {
                    if ph_nodes.contains(&n) {
                        continue;
                    }
                    let doomed: Vec<u8> = inst.edges.iter().filter(|(_, f, t, _)| *f == n || *t == n).map(|(e, ..)| *e).collect();
                    if doomed.iter().any(|e| ph_edges.contains(e)) {
                        continue;
                    }
                    inst.nodes.retain(|(m, _)| *m != n);
                    inst.node_atts.retain(|(m, _)| *m != n);
                    inst.edges.retain(|(e, ..)| !doomed.contains(e));
                    inst.edge_atts.retain(|(e, _)| !doomed.contains(e));
                    return "remove_node";
                }
            }
            2 => {
                if !inst.nodes.is_empty() {
                    let i = rng.usize_below(inst.nodes.len());
                    inst.nodes[i].1 = (inst.nodes[i].1 + 1) % 3;
                    return "retype_node";
                }
            }
            3 => {
                let e = rng.below(u64::from(ids::N_EDGES)) as u8;
                let all: Vec<N> = present.iter().copied().chain(std::iter::once(N::R(w))).collect();
                if !inst.edges.iter().any(|(x, ..)| *x == e) {
                    inst.edges.push((e, *rng.pick(&all), *rng.pick(&all), rng.below(3) as u8));
                    return "add_edge";
                }
            }
            4 => {
                if !inst.edges.is_empty() {
                    let i = rng.usize_below(inst.edges.len());
                    let e = inst.edges[i].0;
                    if ph_edges.contains(&e) {
                        continue;
                    }
                    inst.edges.remove(i);
                    inst.edge_atts.retain(|(x, _)| *x != e);
                    return "remove_edge";
                }
            }
            5 => {
                if !inst.edges.is_empty() {
                    let i = rng.usize_below(inst.edges.len());
                    inst.edges[i].3 = (inst.edges[i].3 + 1) % 3;
                    return "retype_edge";
                }
            }
            6 => {
                if !inst.edges.is_empty() {
                    let all: Vec<N> = present.iter().copied().chain(std::iter::once(N::R(w))).collect();
                    let i = rng.usize_below(inst.edges.len());
                    let t = *rng.pick(&all);
                    if inst.edges[i].2 != t {
                        inst.edges[i].2 = t;
                        return "retarget_edge";
                    }
                }
            }
            7 => {
                if !inst.edges.is_empty() {
                    let all: Vec<N> = present.iter().copied().chain(std::iter::once(N::R(w))).collect();
                    let i = rng.usize_below(inst.edges.len());
                    let f = *rng.pick(&all);
                    if inst.edges[i].1 != f {
                        inst.edges[i].1 = f;
                        let attached = inst.edge_atts.iter().any(|(x, _)| *x == inst.edges[i].0) || ph_edges.contains(&inst.edges[i].0);
                        return if attached { "reparent_attached_edge" } else { "reparent_edge" };
                    }
                }
            }
            8 => {
                let cands: Vec<N> = present.iter().copied().filter(|n| !ph_nodes.contains(n)).collect();
                if !cands.is_empty() {
                    let n = *rng.pick(&cands);
                    let v = gen_val(rng);
                    if let Some(slot) = inst.node_atts.iter_mut().find(|(m, _)| *m == n) {
                        if slot.1 == v {
                            continue;
                        }
                        // change type only, bytes only, or both
                        slot.1 = match rng.below(3) {
                            0 => super::prog::Val { ty: (slot.1.ty + 1) % 3, bytes: slot.1.bytes.clone() },
                            _ => v,
                        };
                        return "change_node_att";
                    }
                    inst.node_atts.push((n, v));
                    return "set_node_att";
                }
            }
            9 => {
                if !inst.node_atts.is_empty() {
                    let i = rng.usize_below(inst.node_atts.len());
                    inst.node_atts.remove(i);
                    return "clear_node_att";
                }
            }
            10 => {
                let cands: Vec<u8> = inst.edges.iter().map(|(e, ..)| *e).filter(|e| !ph_edges.contains(e)).collect();
                if !cands.is_empty() {
                    let e = *rng.pick(&cands);
                    let v = gen_val(rng);
                    if let Some(slot) = inst.edge_atts.iter_mut().find(|(x, _)| *x == e) {
                        if slot.1 == v {
                            continue;
                        }
                        slot.1 = match rng.below(3) {
                            0 => super::prog::Val { ty: (slot.1.ty + 1) % 3, bytes: slot.1.bytes.clone() },
                            _ => v,
                        };
                        return "change_edge_att";
                    }
                    inst.edge_atts.push((e, v));
                    return "set_edge_att";
                }
            }
            11 => {
                if !inst.edge_atts.is_empty() {
                    let i = rng.usize_below(inst.edge_atts.len());
                    inst.edge_atts.remove(i);
                    return "clear_edge_att";
                }
            }
            _ => {
                // drop the last instance (if it hosts no child) or add one
                let last = spec.insts.len() - 1;
                if last > 0 && rng.chance(1, 2) {
                    let lw = spec.insts[last].w;
                    let hosts = spec.insts.iter().any(|i| matches!(&i.portal, Some(PortalSpec::OnNode { pw, .. }) | Some(PortalSpec::OnEdge { pw, .. }) if *pw == lw));
                    if !hosts {
                        spec.insts.pop();
                        return "delete_instance";
                    }
                } else if spec.insts.len() < usize::from(ids::N_WARPS) && !has_children {
                    let host = &spec.insts[wi];
                    let free_nodes: Vec<N> = host.nodes.iter().map(|(n, _)| *n).filter(|n| !host.node_atts.iter().any(|(m, _)| m == n) && !ph_nodes.contains(n)).collect();
                    let free_edges: Vec<u8> = host.edges.iter().map(|(e, ..)| *e).filter(|e| !host.edge_atts.iter().any(|(m, _)| m == e) && !ph_edges.contains(e)).collect();
                    let used: Vec<u8> = spec.insts.iter().map(|i| i.w).collect();
                    let Some(nw) = (1..ids::N_WARPS).find(|x| !used.contains(x)) else { continue };
                    let portal = if !free_edges.is_empty() && rng.chance(1, 2) {
                        PortalSpec::OnEdge { pw: w, e: *rng.pick(&free_edges) }
                    } else if !free_nodes.is_empty() {
                        PortalSpec::OnNode { pw: w, n: *rng.pick(&free_nodes) }
                    } else {
                        continue;
                    };
                    let mut child = InstSpec { w: nw, nodes: vec![], edges: vec![], node_atts: vec![], edge_atts: vec![], portal: Some(portal), progs: vec![], filler: None };
                    if rng.chance(1, 2) {
                        child.nodes.push((N::D(0), 1));
                        child.edges.push((0, N::R(nw), N::D(0), 0));
                    }
                    spec.insts.push(child);
                    return "open_portal";
                }
            }
        }
    }
    "none"
}

/// Alternative construction history of the same abstract state: ops applied one at a time in a
/// shuffled (dependency-respecting) order, with junk content inserted and removed again.
pub fn build_shuffled(spec: &StateSpec, order_seed: u64, junk: bool) -> Result<WarpState, String> {
    let mut rng = Rng::new(order_seed);
    let mut st = WarpState::new();
    let apply = |st: &mut WarpState, op: WarpOp| -> Result<(), String> { warp_core::verif::apply_ops(st, std::slice::from_ref(&op)).map_err(|e| format!("{op:?}: {e:?}")) };
    for inst in &spec.insts {
        let ops = spec.inst_ops(inst);
        let w = ids::warp(inst.w);
        let mut head = Vec::new();
        let mut nodes = Vec::new();
        let mut edges = Vec::new();
        let mut atts = Vec::new();
        for op in ops {
            match &op {
                WarpOp::OpenPortal { .. } | WarpOp::UpsertWarpInstance { .. } => head.push(op),
                WarpOp::UpsertNode { node, .. } if node.local_id == ids::root_node(inst.w) => head.push(op),
                WarpOp::UpsertNode { .. } => nodes.push(op),
                WarpOp::UpsertEdge { .. } => edges.push(op),
                _ => atts.push(op),
            }
        }
        rng.shuffle(&mut nodes);
        rng.shuffle(&mut edges);
        rng.shuffle(&mut atts);
        for op in head {
            apply(&mut st, op)?;
        }
        // interleave nodes and edges (edges do not require their endpoints to exist)
        let mut mixed: Vec<WarpOp> = nodes.into_iter().chain(edges).collect();
        if rng.chance(1, 2) {
            rng.shuffle(&mut mixed);
        }
        if junk {
            let jn = NodeKey { warp_id: w, local_id: NodeId([0xEE; 32]) };
            let je = EdgeId([0xED; 32]);
            apply(&mut st, WarpOp::UpsertNode { node: jn, record: NodeRecord { ty: ids::ty(2) } })?;
            apply(&mut st, WarpOp::UpsertEdge { warp_id: w, record: EdgeRecord { id: je, from: jn.local_id, to: ids::root_node(inst.w), ty: ids::ty(1) } })?;
            apply(&mut st, WarpOp::SetAttachment { key: AttachmentKey::node_alpha(jn), value: Some(super::prog::val_att(&super::prog::Val { ty: 0, bytes: b"junk".to_vec() })) })?;
            for op in mixed {
                apply(&mut st, op)?;
            }
            apply(&mut st, WarpOp::DeleteEdge { warp_id: w, from: jn.local_id, edge_id: je })?;
            apply(&mut st, WarpOp::DeleteNode { node: jn })?;
        } else {
            for op in mixed {
                apply(&mut st, op)?;
            }
        }
        for op in atts {
            apply(&mut st, op)?;
        }
    }
    Ok(st)
}

/// Build through one big canonical patch per instance but with edges first inserted under another
/// source bucket and then moved (same-id edge migration), exercising the reverse indexes.
pub fn build_with_migrations(spec: &StateSpec) -> Result<WarpState, String> {
    let mut st = WarpState::new();
    for inst in &spec.insts {
        let w = ids::warp(inst.w);
        let ops = spec.inst_ops(inst);
        let pre: Vec<WarpOp> = ops
            .iter()
            .filter_map(|op| match op {
                WarpOp::UpsertEdge { warp_id, record } => Some(WarpOp::UpsertEdge {
                    warp_id: *warp_id,
                    record: EdgeRecord { id: record.id, from: ids::root_node(inst.w), to: record.from, ty: ids::ty(2) },
                }),
                _ => None,
            })
            .collect();
        let heads: Vec<WarpOp> = ops.iter().filter(|op| matches!(op, WarpOp::OpenPortal { .. } | WarpOp::UpsertWarpInstance { .. })).cloned().collect();
        let p0 = WarpTickPatchV1::new(0, [0u8; 32], TickCommitStatus::Committed, vec![], vec![], heads);
        p0.apply_to_state(&mut st).map_err(|e| format!("{e:?}"))?;
        let _ = w;
        if !pre.is_empty() {
            let p1 = WarpTickPatchV1::new(0, [0u8; 32], TickCommitStatus::Committed, vec![], vec![], pre);
            p1.apply_to_state(&mut st).map_err(|e| format!("{e:?}"))?;
        }
        let p2 = WarpTickPatchV1::new(0, [0u8; 32], TickCommitStatus::Committed, vec![], vec![], ops);
        p2.apply_to_state(&mut st).map_err(|e| format!("{e:?}"))?;
    }
    Ok(st)
}
