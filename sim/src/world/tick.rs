//! One engine tick over a candidate set: real execution and reference model.

use std::sync::Arc;

use serde::{Deserialize, Serialize};
use warp_core::verif::{install_claim_controller, ClaimController};
use warp_core::{
    scope_hash, ApplyResult, EdgeId, Engine, EngineBuilder, FootprintViolation, FootprintViolationWithPanic, NodeId, NodeKey,
    SchedulerKind, TickReceiptDisposition, WarpOp, WarpState,
};

use super::gen::StateSpec;
use super::ids;
use super::prog::{accesses_conflict, declared_accesses, interpret, Access, Prog};
use super::rules::{make_rule, rule_id, N_RULES, RULE_NAMES};
use crate::model::refstate::{abs, ref_merge, RefState};

/// A candidate: (rule, instance, scope node). The program is whatever the state holds at the scope.
#[derive(Clone, Copy, Debug, Serialize, Deserialize, PartialEq, Eq, PartialOrd, Ord)]
pub struct Cand {
    pub rule: u8,
    pub w: u8,
    pub k: u16,
    pub shard: u8,
}

impl Cand {
    pub fn scope(&self) -> NodeId {
        ids::pnode(self.k, self.shard)
    }
    pub fn key(&self) -> NodeKey {
        NodeKey { warp_id: ids::warp(self.w), local_id: self.scope() }
    }
}

#[derive(Clone, Debug, Serialize, Deserialize, PartialEq, Eq)]
pub struct EngineCfg {
    pub legacy_scheduler: bool,
    pub workers: usize,
    /// Registration order of the rule ids (permutation of 0..N_RULES): varies compact rule ids.
    pub rule_order: Vec<u8>,
    /// Open a second transaction and interleave these candidate indices into it (then abort it).
    pub other_tx: Vec<usize>,
}

impl Default for EngineCfg {
    fn default() -> Self {
        Self { legacy_scheduler: false, workers: 1, rule_order: (0..N_RULES).collect(), other_tx: vec![] }
    }
}

#[derive(Clone, Debug, PartialEq, Eq)]
pub struct ReceiptObs {
    /// (rule id, scope hash, scope key bytes, applied?)
    pub entries: Vec<([u8; 32], [u8; 32], ([u8; 32], [u8; 32]), bool)>,
    pub blocked_by: Vec<Vec<u32>>,
    pub digest: [u8; 32],
}

#[derive(Clone, Debug, PartialEq, Eq)]
pub struct CommitObs {
    pub hash: [u8; 32],
    pub state_root: [u8; 32],
    pub parents: Vec<[u8; 32]>,
    pub plan_digest: [u8; 32],
    pub decision_digest: [u8; 32],
    pub rewrites_digest: [u8; 32],
    pub patch_digest: [u8; 32],
    pub policy_id: u32,
    pub receipt: ReceiptObs,
    pub patch_ops: Vec<WarpOp>,
    pub patch_in: Vec<warp_core::SlotId>,
    pub patch_out: Vec<warp_core::SlotId>,
}

#[derive(Clone, Debug, PartialEq, Eq)]
pub enum TickResult {
    Committed(Box<CommitObs>),
    EngineErr(String),
    /// commit unwound with a footprint violation
    Violation { kind: String, with_panic: bool },
    /// commit unwound with some other panic
    Panic(String),
    /// (delta_validate builds only) the repository's in-crate delta/accumulator validator panicked;
    /// treated as a monitor event, not as an oracle (DESIGN 4.6)
    ValidatorDisagreement(String),
}

pub struct TickObs {
    pub result: TickResult,
    /// abs(engine.state()) after the commit attempt
    pub post: RefState,
    pub apply_results: Vec<Result<bool, String>>,
    pub claim_log: Vec<Vec<u16>>,
    pub overlap: bool,
    pub engine: Option<Engine>,
    pub patch: Option<warp_core::WarpTickPatchV1>,
}

pub fn build_engine(state: WarpState, spec: &StateSpec, cfg: &EngineCfg) -> Result<Engine, String> {
    let mut b = EngineBuilder::from_state(state, spec.root_key()).workers(cfg.workers.max(1));
    if cfg.legacy_scheduler {
        b = b.scheduler(SchedulerKind::Legacy);
    }
    let mut engine = b.build().map_err(|e| format!("engine build: {e:?}"))?;
    for r in &cfg.rule_order {
        engine.register_rule(make_rule(*r)).map_err(|e| format!("register: {e:?}"))?;
    }
    Ok(engine)
}

/// Run one real tick: enqueue `arrival` (indices into `cands`, repeats allowed), commit.
pub fn run_tick(spec: &StateSpec, cands: &[Cand], arrival: &[usize], cfg: &EngineCfg, claim_tape: Option<&[u16]>) -> Result<TickObs, String> {
    let state = spec.build()?;
    let mut engine = build_engine(state, spec, cfg)?;
    let tx = engine.begin();
    let other = if cfg.other_tx.is_empty() { None } else { Some(engine.begin()) };
    let mut apply_results = Vec::new();
    let mut other_iter = cfg.other_tx.iter();
    for &i in arrival {
        let Some(c) = cands.get(i) else { continue };
        let r = engine.apply_in_warp(tx, ids::warp(c.w), RULE_NAMES[usize::from(c.rule.min(3))], &c.scope(), &[]);
        apply_results.push(match r {
            Ok(ApplyResult::Applied) => Ok(true),
            Ok(ApplyResult::NoMatch) => Ok(false),
            Err(e) => Err(format!("{e:?}")),
        });
        if let (Some(otx), Some(&j)) = (other, other_iter.next()) {
            if let Some(c2) = cands.get(j) {
                let _ = engine.apply_in_warp(otx, ids::warp(c2.w), RULE_NAMES[usize::from(c2.rule.min(3))], &c2.scope(), &[]);
            }
        }
    }
    let ctrl = claim_tape.map(|t| ClaimController::new(t.to_vec()));
    install_claim_controller(ctrl.clone());
    let res = std::panic::catch_unwind(std::panic::AssertUnwindSafe(|| engine.commit_with_receipt(tx)));
    install_claim_controller(None);
    let (claim_log, overlap) = match &ctrl {
        Some(c) => (c.claim_log(), c.overlap_detected()),
        None => (vec![], false),
    };
    drop::<Option<Arc<ClaimController>>>(ctrl);
    let mut patch_out = None;
    let result = match res {
        Ok(Ok((snap, receipt, patch))) => {
            let entries = receipt
                .entries()
                .iter()
                .map(|e| (e.rule_id, e.scope_hash, (e.scope.warp_id.0, e.scope.local_id.0), matches!(e.disposition, TickReceiptDisposition::Applied)))
                .collect();
            let blocked_by = (0..receipt.entries().len()).map(|i| receipt.blocked_by(i).to_vec()).collect();
            let obs = CommitObs {
                hash: snap.hash,
                state_root: snap.state_root,
                parents: snap.parents.clone(),
                plan_digest: snap.plan_digest,
                decision_digest: snap.decision_digest,
                rewrites_digest: snap.rewrites_digest,
                patch_digest: snap.patch_digest,
                policy_id: snap.policy_id,
                receipt: ReceiptObs { entries, blocked_by, digest: receipt.digest() },
                patch_ops: patch.ops().to_vec(),
                patch_in: patch.in_slots().to_vec(),
                patch_out: patch.out_slots().to_vec(),
            };
            patch_out = Some(patch);
            TickResult::Committed(Box::new(obs))
        }
        Ok(Err(e)) => TickResult::EngineErr(format!("{e:?}")),
        Err(payload) => {
            if let Some(v) = payload.downcast_ref::<FootprintViolation>() {
                TickResult::Violation { kind: format!("{:?}", v.kind), with_panic: false }
            } else if let Some(v) = payload.downcast_ref::<FootprintViolationWithPanic>() {
                TickResult::Violation { kind: format!("{:?}", v.violation.kind), with_panic: true }
            } else if let Some(s) = payload.downcast_ref::<String>() {
                if cfg!(feature = "delta_validate") && (s.contains("DELTA MISMATCH") || s.contains("state_root mismatch")) {
                    TickResult::ValidatorDisagreement(s.lines().take(3).collect::<Vec<_>>().join(" "))
                } else {
                    TickResult::Panic(s.clone())
                }
            } else if let Some(s) = payload.downcast_ref::<&str>() {
                TickResult::Panic((*s).to_owned())
            } else {
                TickResult::Panic("opaque payload".to_owned())
            }
        }
    };
    if let (Some(otx), true) = (other, true) {
        engine.abort(otx);
    }
    let post = abs(engine.state(), &spec.warps());
    Ok(TickObs { result, post, apply_results, claim_log, overlap, engine: Some(engine), patch: patch_out })
}

// ---------------------------------------------------------------------------
// Reference tick model
// ---------------------------------------------------------------------------

#[derive(Clone, Debug)]
pub struct RefCand {
    pub cand: Cand,
    pub prog: Prog,
    pub scope_hash: [u8; 32],
    pub rule_id: [u8; 32],
    pub declared: Vec<Access>,
    pub omitted: Option<Access>,
}

#[derive(Clone, Debug)]
pub struct RefTick {
    /// Matched candidates in canonical order.
    pub order: Vec<RefCand>,
    pub accepted: Vec<bool>,
    pub blockers: Vec<Vec<u32>>,
    /// Merged ops of the accepted rewrites, canonical order; Err if two rewrites diverge on one key.
    pub merged: Result<Vec<WarpOp>, ()>,
    /// Reference post-state; Err if the merged ops cannot be applied.
    pub post: Result<RefState, String>,
}

pub fn program_in(pre: &RefState, c: &Cand) -> Option<Prog> {
    let inst = pre.inst.get(&ids::warp(c.w).0)?;
    match inst.node_att.get(&c.scope().0)? {
        crate::model::refstate::RefAtt::Atom { bytes, .. } => Prog::decode(bytes),
        crate::model::refstate::RefAtt::Descend(_) => None,
    }
}

/// Reference: canonical order = ascending (scope_hash, rule id); greedy independent set under the
/// harness's conflict predicate; each accepted program interpreted against the pre-state.
pub fn ref_tick(pre: &RefState, cands: &[Cand]) -> RefTick {
    let mut set: Vec<RefCand> = Vec::new();
    for c in cands {
        let Some(prog) = program_in(pre, c) else { continue };
        if prog.rule != c.rule {
            continue;
        }
        if set.iter().any(|x| x.cand == *c) {
            continue;
        }
        let w = ids::warp(c.w);
        let inst = pre.inst.get(&w.0);
        let prev = |e: &EdgeId| inst.and_then(|i| i.edges.get(&e.0)).map(|(f, _, _)| NodeId(*f));
        let (declared, omitted) = declared_accesses(&prog, w, &c.scope(), &prev);
        let rid = rule_id(c.rule);
        set.push(RefCand { cand: *c, prog, scope_hash: scope_hash(&rid, &c.key()), rule_id: rid, declared, omitted });
    }
    set.sort_by(|a, b| (a.scope_hash, a.rule_id).cmp(&(b.scope_hash, b.rule_id)));
    let mut accepted = Vec::new();
    let mut blockers: Vec<Vec<u32>> = Vec::new();
    for (i, c) in set.iter().enumerate() {
        let mut bl = Vec::new();
        for j in 0..i {
            if accepted[j] && set[j].cand.w == c.cand.w && accesses_conflict(&set[j].declared, &c.declared) {
                bl.push(j as u32);
            }
        }
        accepted.push(bl.is_empty());
        blockers.push(bl);
    }
    let mut ops: Vec<WarpOp> = Vec::new();
    let mut program_panics = false;
    for (i, c) in set.iter().enumerate() {
        if !accepted[i] {
            continue;
        }
        let w = ids::warp(c.cand.w);
        if let Some(inst) = pre.inst.get(&w.0) {
            let mut local: Vec<WarpOp> = Vec::new();
            let r = crate::kernel::catch(|| interpret(&c.prog, inst, w, &c.cand.scope(), &mut |op| local.push(op)));
            if r.is_err() {
                program_panics = true;
            }
            ops.extend(local);
        }
    }
    let merged = if program_panics { Err(()) } else { ref_merge(ops) };
    let post = match &merged {
        Ok(ops) => {
            let mut s = pre.clone();
            match s.apply_ops(ops) {
                Ok(()) => Ok(s),
                Err(e) => Err(format!("{e:?}")),
            }
        }
        Err(()) => Err("divergent ops share a key".to_owned()),
    };
    RefTick { order: set, accepted, blockers, merged, post }
}

/// Reference tick for the runtime path: the programs arrive as intents (scope = event node whose id is
/// the ingress id, in the root instance `w`). Returns (applied flags in canonical order, post-state).
pub struct RefRuntimeTick {
    /// (scope hash, ingress id, applied?) in canonical order
    pub entries: Vec<([u8; 32], [u8; 32], bool)>,
    pub post: Result<RefState, String>,
}

pub fn ref_runtime_tick(pre_state: &RefState, w: u8, items: &[([u8; 32], u8, Prog)]) -> RefRuntimeTick {
    let warp = ids::warp(w);
    // Ingress materialisation happens before any rule runs: event node, kind node and the
    // event -> kind edge exist in the state the programs see (types are irrelevant to the model and the
    // comparison is restricted to the harness universe afterwards).
    let mut pre = pre_state.clone();
    if let Some(i) = pre.inst.get_mut(&warp.0) {
        for (id, kind, _) in items {
            let kn = super::prog::kind_node_id(*kind);
            i.nodes.entry(*id).or_insert([0xE1; 32]);
            i.nodes.entry(kn.0).or_insert([0xE2; 32]);
            i.edges.insert(super::prog::kind_edge_id(&NodeId(*id), *kind).0, (*id, kn.0, [0xE3; 32]));
        }
    }
    let pre = &pre;
    let inst = pre.inst.get(&warp.0);
    struct It {
        sh: [u8; 32],
        rid: [u8; 32],
        id: [u8; 32],
        prog: Prog,
        declared: Vec<Access>,
    }
    let mut set: Vec<It> = Vec::new();
    for (id, _kind, prog) in items {
        if prog.rule >= N_RULES || set.iter().any(|x| x.id == *id) {
            continue;
        }
        let scope = NodeId(*id);
        let rid = rule_id(prog.rule);
        let prev = |e: &EdgeId| inst.and_then(|i| i.edges.get(&e.0)).map(|(f, _, _)| NodeId(*f));
        let (declared, _) = declared_accesses(prog, warp, &scope, &prev);
        set.push(It { sh: scope_hash(&rid, &NodeKey { warp_id: warp, local_id: scope }), rid, id: *id, prog: prog.clone(), declared });
    }
    set.sort_by(|a, b| (a.sh, a.rid).cmp(&(b.sh, b.rid)));
    let mut accepted: Vec<bool> = Vec::new();
    for (i, c) in set.iter().enumerate() {
        let blocked = (0..i).any(|j| accepted[j] && accesses_conflict(&set[j].declared, &c.declared));
        accepted.push(!blocked);
    }
    let mut ops: Vec<WarpOp> = Vec::new();
    let mut panics = false;
    for (i, c) in set.iter().enumerate() {
        if !accepted[i] {
            continue;
        }
        if let Some(inst) = inst {
            let mut local = Vec::new();
            let scope = NodeId(c.id);
            if crate::kernel::catch(|| interpret(&c.prog, inst, warp, &scope, &mut |op| local.push(op))).is_err() {
                panics = true;
            }
            ops.extend(local);
        }
    }
    let post = if panics {
        Err("program panics".to_owned())
    } else {
        match ref_merge(ops) {
            Err(()) => Err("divergent ops share a key".to_owned()),
            Ok(ops) => {
                let mut s = pre.clone();
                match s.apply_ops(&ops) {
                    Ok(()) => Ok(s),
                    Err(e) => Err(format!("{e:?}")),
                }
            }
        }
    };
    RefRuntimeTick { entries: set.iter().zip(&accepted).map(|(c, a)| (c.sh, c.id, *a)).collect(), post }
}

/// Restriction of an abstract state to the harness's id universe (drops runtime-materialised event
/// and kind nodes/edges, which the reference model does not create).
pub fn universe_only(s: &RefState) -> RefState {
    let node_ok = |n: &[u8; 32]| matches!(n[8], b'n' | b'p' | b'r') && n[11..].iter().all(|b| *b == 0);
    let edge_ok = |e: &[u8; 32]| (e[0] == b'e' || e[0] == b'l') && e[3..].iter().all(|b| *b == 0);
    let mut out = RefState::default();
    for (w, i) in &s.inst {
        let mut r = crate::model::refstate::RefInst { root: i.root, parent: i.parent, ..Default::default() };
        r.nodes = i.nodes.iter().filter(|(n, _)| node_ok(n)).map(|(n, t)| (*n, *t)).collect();
        r.edges = i.edges.iter().filter(|(e, _)| edge_ok(e)).map(|(e, v)| (*e, *v)).collect();
        r.node_att = i.node_att.iter().filter(|(n, _)| node_ok(n)).map(|(n, v)| (*n, v.clone())).collect();
        r.edge_att = i.edge_att.iter().filter(|(e, _)| edge_ok(e)).map(|(e, v)| (*e, v.clone())).collect();
        out.inst.insert(*w, r);
    }
    out
}
