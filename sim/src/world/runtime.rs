//! Runtime world: `WorldlineRuntime` + `ProvenanceService` + `Engine` with interpreter rules,
//! 1–3 worldlines × 1–4 writer heads, intents carrying programs as data. Shared by C05, C07, C08,
//! C09, C15, C16. After every successful scheduler pass the world records the ground truth
//! `live[w][t]` that replay, recovery, forks and observations are later compared with.

use std::collections::BTreeMap;

use serde::{Deserialize, Serialize};
use warp_core::{
    make_head_id, make_intent_kind, Engine, EngineBuilder, GraphStore, InboxAddress, InboxPolicy, IngressDisposition,
    IngressEnvelope, IngressTarget, IntentKind, NodeRecord, PlaybackMode, ProvenanceService, SchedulerCoordinator,
    SchedulerKind, StepRecord, WorldlineId, WorldlineRuntime, WorldlineState, WriterHead, WriterHeadKey,
};

use super::gen::{gen_prog, gen_state, ProgKnobs, StateSpec};
use super::ids;
use super::prog::Prog;
use super::rules::{make_rule, N_RULES};
use crate::kernel::Rng;
use crate::model::refstate::{abs, RefState};

#[derive(Clone, Debug, Serialize, Deserialize, PartialEq, Eq)]
pub enum PolicySpec {
    AcceptAll,
    Kinds(Vec<u8>),
    Budget(u32),
}

impl PolicySpec {
    pub fn real(&self) -> InboxPolicy {
        match self {
            PolicySpec::AcceptAll => InboxPolicy::AcceptAll,
            PolicySpec::Kinds(k) => InboxPolicy::KindFilter(k.iter().map(|i| kind(*i)).collect()),
            PolicySpec::Budget(n) => InboxPolicy::Budgeted { max_per_tick: *n },
        }
    }
}

#[derive(Clone, Debug, Serialize, Deserialize, PartialEq, Eq)]
pub struct HeadSpec {
    pub label: u8,
    pub policy: PolicySpec,
    pub inbox: Option<u8>,
    pub default: bool,
}

#[derive(Clone, Debug, Serialize, Deserialize, PartialEq, Eq)]
pub struct WlSpec {
    pub id: u8,
    pub state: StateSpec,
    pub heads: Vec<HeadSpec>,
}

#[derive(Clone, Debug, Serialize, Deserialize, PartialEq, Eq)]
pub struct WorldSpec {
    pub worldlines: Vec<WlSpec>,
    pub workers: usize,
    pub legacy: bool,
    pub rule_order: Vec<u8>,
}

#[derive(Clone, Debug, Serialize, Deserialize, PartialEq, Eq, PartialOrd, Ord)]
pub enum TargetSpec {
    Default { wl: u8 },
    Inbox { wl: u8, name: u8 },
    Exact { wl: u8, head: u8 },
}

#[derive(Clone, Debug, Serialize, Deserialize, PartialEq, Eq)]
pub struct Intent {
    pub kind: u8,
    pub prog: Prog,
    pub target: TargetSpec,
}

pub fn wl_id(i: u8) -> WorldlineId {
    let mut b = [0u8; 32];
    b[0] = 0xB0 + i;
    b[1] = b'L';
    b[31] = i;
    WorldlineId::from_bytes(b)
}

pub fn head_key(wl: u8, label: u8) -> WriterHeadKey {
    WriterHeadKey { worldline_id: wl_id(wl), head_id: make_head_id(&format!("verif/h{label}")) }
}

pub fn kind(i: u8) -> IntentKind {
    make_intent_kind(&format!("verif/k{i}"))
}

pub fn inbox_name(i: u8) -> InboxAddress {
    InboxAddress(format!("verif-inbox-{i}"))
}

impl Intent {
    pub fn envelope(&self) -> IngressEnvelope {
        let target = match &self.target {
            TargetSpec::Default { wl } => IngressTarget::DefaultWriter { worldline_id: wl_id(*wl) },
            TargetSpec::Inbox { wl, name } => IngressTarget::InboxAddress { worldline_id: wl_id(*wl), inbox: inbox_name(*name) },
            TargetSpec::Exact { wl, head } => IngressTarget::ExactHead { key: head_key(*wl, *head) },
        };
        IngressEnvelope::local_intent(target, kind(self.kind), self.prog.encode())
    }
    pub fn wl(&self) -> u8 {
        match &self.target {
            TargetSpec::Default { wl } | TargetSpec::Inbox { wl, .. } | TargetSpec::Exact { wl, .. } => *wl,
        }
    }
}

#[derive(Clone, Debug, PartialEq, Eq)]
pub struct LiveTick {
    pub state_root: [u8; 32],
    pub commit_hash: [u8; 32],
    pub head: WriterHeadKey,
    pub global_tick: u64,
    /// abstract state after this tick, when it was observable (last tick of a worldline in a pass)
    pub abs: Option<RefState>,
}

#[derive(Clone, Debug, PartialEq, Eq)]
pub enum PassResult {
    Ok(Vec<StepRecord>),
    Err(String),
    Panic(String),
}

pub struct World {
    pub spec: WorldSpec,
    pub runtime: WorldlineRuntime,
    pub provenance: ProvenanceService,
    pub engine: Engine,
    /// live[worldline index in spec][tick]
    pub live: BTreeMap<u8, Vec<LiveTick>>,
    pub passes: u64,
}

pub fn build_engine_for_runtime(spec: &WorldSpec) -> Result<Engine, String> {
    let root = warp_core::make_node_id("verif/engine-root");
    let mut store = GraphStore::default();
    store.insert_node(root, NodeRecord { ty: warp_core::make_type_id("world") });
    let mut b = EngineBuilder::new(store, root).workers(spec.workers.max(1));
    if spec.legacy {
        b = b.scheduler(SchedulerKind::Legacy);
    }
    let mut engine = b.build();
    for r in &spec.rule_order {
        engine.register_rule(make_rule(*r)).map_err(|e| format!("register rule: {e:?}"))?;
    }
    Ok(engine)
}

impl World {
    pub fn new(spec: &WorldSpec) -> Result<World, String> {
        let mut runtime = WorldlineRuntime::new();
        for wl in &spec.worldlines {
            let st = wl.state.build()?;
            let ws = WorldlineState::new(st, wl.state.root_key()).map_err(|e| format!("worldline state: {e:?}"))?;
            runtime.register_worldline(wl_id(wl.id), ws).map_err(|e| format!("register worldline: {e:?}"))?;
            for h in &wl.heads {
                runtime
                    .register_writer_head(WriterHead::with_routing(head_key(wl.id, h.label), PlaybackMode::Play, h.policy.real(), h.inbox.map(inbox_name), h.default))
                    .map_err(|e| format!("register head: {e:?}"))?;
            }
        }
        let mut provenance = ProvenanceService::new();
        for (id, frontier) in runtime.worldlines().iter() {
            provenance.register_worldline(*id, frontier.state()).map_err(|e| format!("provenance register: {e:?}"))?;
        }
        let engine = build_engine_for_runtime(spec)?;
        let live = spec.worldlines.iter().map(|w| (w.id, Vec::new())).collect();
        Ok(World { spec: spec.clone(), runtime, provenance, engine, live, passes: 0 })
    }

    pub fn deliver(&mut self, intent: &Intent) -> Result<IngressDisposition, String> {
        self.runtime.ingest(intent.envelope()).map_err(|e| format!("{e:?}"))
    }

    /// Ticketed delivery: `submit_intent` (witnessed submission) followed by the runtime owner's
    /// `ingest_ticketed_invocation`. Returns Ok(true) when newly staged, Ok(false) for a duplicate.
    pub fn deliver_ticketed(&mut self, intent: &Intent) -> Result<bool, String> {
        use warp_core::{
            IntentSubmissionDisposition, OpticAdmissionTicket, OpticArtifactHandle, TicketedRuntimeIngressAuthority, TicketedRuntimeIngressDisposition,
            OPTIC_ADMISSION_TICKET_KIND, OPTIC_ARTIFACT_HANDLE_KIND,
        };
        let env = intent.envelope();
        let (sub, key, id) = match self.runtime.submit_intent(env.clone()).map_err(|e| format!("{e:?}"))? {
            IntentSubmissionDisposition::Accepted { submission_id, head_key, ingress_id, .. } | IntentSubmissionDisposition::Duplicate { submission_id, head_key, ingress_id, .. } => {
                (submission_id, head_key, ingress_id)
            }
        };
        let mut h = blake3::Hasher::new();
        h.update(b"verif/ticket");
        h.update(key.worldline_id.as_bytes());
        h.update(key.head_id.as_bytes());
        h.update(&id);
        let d: [u8; 32] = *h.finalize().as_bytes();
        let ticket = OpticAdmissionTicket {
            kind: OPTIC_ADMISSION_TICKET_KIND.to_owned(),
            artifact_handle: OpticArtifactHandle { kind: OPTIC_ARTIFACT_HANDLE_KIND.to_owned(), id: format!("verif-{}", hex::encode(&d[..6])) },
            artifact_hash: "verif-artifact".to_owned(),
            operation_id: "verif-operation".to_owned(),
            requirements_digest: "verif-requirements".to_owned(),
            canonical_variables_digest: d[..8].to_vec(),
            basis_request_digest: d,
            aperture_request_digest: d,
            budget_request_digest: d,
            law_witness_digest: d,
            ticket_digest: d,
        };
        let auth = TicketedRuntimeIngressAuthority::assume_runtime_owner();
        match self.runtime.ingest_ticketed_invocation(&auth, sub, &ticket, env).map_err(|e| format!("{e:?}"))? {
            TicketedRuntimeIngressDisposition::Staged { ingress: IngressDisposition::Accepted { .. }, .. } => Ok(true),
            TicketedRuntimeIngressDisposition::Staged { .. } | TicketedRuntimeIngressDisposition::Duplicate { .. } => Ok(false),
        }
    }

    /// One scheduler pass (panics are caught and reported).
    pub fn pass(&mut self) -> PassResult {
        // Multi-worker engines run real threads: script their claim order (hook H1, fixed round-robin
        // tape) so that which worker meets a poisonous unit first never depends on the OS scheduler.
        if self.spec.workers > 1 {
            warp_core::verif::install_claim_controller(Some(warp_core::verif::ClaimController::new(vec![0, 1, 2, 3])));
        }
        let r = std::panic::catch_unwind(std::panic::AssertUnwindSafe(|| SchedulerCoordinator::super_tick(&mut self.runtime, &mut self.provenance, &mut self.engine)));
        warp_core::verif::install_claim_controller(None);
        self.passes += 1;
        match r {
            Ok(Ok(records)) => {
                self.record_live(&records);
                PassResult::Ok(records)
            }
            Ok(Err(e)) => PassResult::Err(format!("{e:?}")),
            Err(p) => PassResult::Panic(if let Some(s) = p.downcast_ref::<String>() {
                s.clone()
            } else if let Some(s) = p.downcast_ref::<&str>() {
                (*s).to_owned()
            } else if p.downcast_ref::<warp_core::FootprintViolation>().is_some() {
                "FootprintViolation".to_owned()
            } else if p.downcast_ref::<warp_core::FootprintViolationWithPanic>().is_some() {
                "FootprintViolationWithPanic".to_owned()
            } else {
                "opaque".to_owned()
            }),
        }
    }

    fn record_live(&mut self, records: &[StepRecord]) {
        let warps = (0..ids::N_WARPS).map(ids::warp).collect::<Vec<_>>();
        for (i, r) in records.iter().enumerate() {
            let Some(wl) = self.spec.worldlines.iter().find(|w| wl_id(w.id) == r.head_key.worldline_id).map(|w| w.id) else { continue };
            let last_of_wl = !records[i + 1..].iter().any(|x| x.head_key.worldline_id == r.head_key.worldline_id);
            let abs_state = if last_of_wl {
                self.runtime.worldlines().get(&r.head_key.worldline_id).map(|f| abs(f.state().warp_state(), &warps))
            } else {
                None
            };
            if let Some(v) = self.live.get_mut(&wl) {
                v.push(LiveTick { state_root: r.state_root, commit_hash: r.commit_hash, head: r.head_key, global_tick: r.commit_global_tick.as_u64(), abs: abs_state });
            }
        }
    }

    pub fn abs_of(&self, wl: u8) -> Option<RefState> {
        let warps = (0..ids::N_WARPS).map(ids::warp).collect::<Vec<_>>();
        self.runtime.worldlines().get(&wl_id(wl)).map(|f| abs(f.state().warp_state(), &warps))
    }

    pub fn fp_runtime(&self) -> Fingerprint {
        fingerprint(&format!("{:#?}", self.runtime))
    }
    pub fn fp_provenance(&self) -> Fingerprint {
        fingerprint(&format!("{:#?}", self.provenance))
    }
    /// Engine has no Debug: fingerprint = abstract state, snapshot, ledger length, last materialization.
    pub fn fp_engine(&self) -> [u8; 32] {
        let warps = (0..ids::N_WARPS).map(ids::warp).collect::<Vec<_>>();
        let mut h = blake3::Hasher::new();
        h.update(format!("{:?}", abs(self.engine.state(), &warps)).as_bytes());
        h.update(format!("{:?}", self.engine.snapshot()).as_bytes());
        h.update(&(self.engine.get_ledger().len() as u64).to_le_bytes());
        h.update(format!("{:?}", self.engine.last_materialization()).as_bytes());
        *h.finalize().as_bytes()
    }
}

/// Top-level-field fingerprint of a `{:#?}` rendering: field name -> digest of that field's text.
/// Private indexes that no test reads back are covered; named fields can be excluded by the oracle.
#[derive(Clone, Debug, PartialEq, Eq)]
pub struct Fingerprint(pub BTreeMap<String, [u8; 32]>);

/// Fields that are test instrumentation bumped by read-only calls under `host_test`.
pub const ALWAYS_EXCLUDED: [&str; 2] = ["receipt_correlation_full_scan_count", "fail_next_echo_operation_action_tick_construction"];

pub fn fingerprint(text: &str) -> Fingerprint {
    let mut out: BTreeMap<String, [u8; 32]> = BTreeMap::new();
    let mut cur: Option<(String, blake3::Hasher)> = None;
    for line in text.lines() {
        let is_top = line.starts_with("    ") && !line.starts_with("     ") && line.contains(':') && line.trim_start().chars().next().is_some_and(|c| c.is_ascii_alphabetic() || c == '_');
        if is_top {
            if let Some((name, h)) = cur.take() {
                out.insert(name, *h.finalize().as_bytes());
            }
            let name = line.trim_start().split(':').next().unwrap_or("").to_owned();
            let mut h = blake3::Hasher::new();
            h.update(line.as_bytes());
            cur = Some((name, h));
        } else if let Some((_, h)) = cur.as_mut() {
            h.update(line.as_bytes());
            h.update(b"\n");
        }
    }
    if let Some((name, h)) = cur.take() {
        out.insert(name, *h.finalize().as_bytes());
    }
    for k in ALWAYS_EXCLUDED {
        out.remove(k);
    }
    Fingerprint(out)
}

impl Fingerprint {
    /// Names of fields whose digest differs (or that exist on one side only).
    pub fn diff(&self, other: &Fingerprint) -> Vec<String> {
        let mut out = Vec::new();
        for (k, v) in &self.0 {
            if other.0.get(k) != Some(v) {
                out.push(k.clone());
            }
        }
        for k in other.0.keys() {
            if !self.0.contains_key(k) {
                out.push(k.clone());
            }
        }
        out
    }
}

// ---------------------------------------------------------------------------
// Generators
// ---------------------------------------------------------------------------

pub fn gen_world(rng: &mut Rng, max_wl: usize, max_heads: usize, node_pool: u8) -> WorldSpec {
    let n_wl = rng.urange(1, max_wl.max(1));
    let mut worldlines = Vec::new();
    for i in 0..n_wl {
        // Runtime rules run in the root instance; keep the state single- or multi-instance.
        let state = gen_state(rng, node_pool);
        let n_heads = rng.urange(1, max_heads.max(1));
        let default_ix = rng.usize_below(n_heads);
        let mut heads = Vec::new();
        for h in 0..n_heads {
            let policy = match rng.below(6) {
                0 => PolicySpec::Budget(rng.range(0, 3) as u32),
                1 => PolicySpec::Kinds((0..3u8).filter(|_| rng.chance(2, 3)).collect()),
                _ => PolicySpec::AcceptAll,
            };
            heads.push(HeadSpec { label: h as u8, policy, inbox: if rng.chance(1, 2) { Some(h as u8) } else { None }, default: h == default_ix });
        }
        worldlines.push(WlSpec { id: i as u8, state, heads });
    }
    let mut rule_order: Vec<u8> = (0..N_RULES).collect();
    rng.shuffle(&mut rule_order);
    WorldSpec { worldlines, workers: *rng.pick(&[1usize, 1, 2]), legacy: rng.chance(1, 6), rule_order }
}

/// Generate an intent with a unique nonce aimed at a routable target of `spec`.
pub fn gen_intent(rng: &mut Rng, spec: &WorldSpec, nonce: u32, knobs: &ProgKnobs) -> Intent {
    let wi = rng.usize_below(spec.worldlines.len());
    let wl = &spec.worldlines[wi];
    let rule = rng.below(u64::from(N_RULES)) as u8;
    // programs run in the root instance (index 0 of the state spec)
    let prog = gen_prog(rng, &wl.state, 0, rule, nonce, knobs);
    let with_inbox: Vec<&HeadSpec> = wl.heads.iter().filter(|h| h.inbox.is_some()).collect();
    let target = match rng.below(4) {
        0 if !with_inbox.is_empty() => TargetSpec::Inbox { wl: wl.id, name: rng.pick(&with_inbox).inbox.unwrap_or(0) },
        1 => TargetSpec::Exact { wl: wl.id, head: rng.pick(&wl.heads).label },
        _ => TargetSpec::Default { wl: wl.id },
    };
    let kind = rng.below(3) as u8;
    let mut prog = prog;
    if rng.chance(1, 8) {
        // touch something the same commit's ingress materialisation created
        prog.steps.push(super::prog::Step::DeleteKindEdge { kind });
    }
    Intent { kind, prog, target }
}
